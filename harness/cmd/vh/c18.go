package main

import (
	"time"
	"strconv"
	"bytes"
	"os"
	"os/exec"
	"path/filepath"
	"sync/atomic"
	"net/http/httptest"
	"context"
	"errors"
	"fmt"
	"math/rand"
	"net"
	"net/http"
	"sort"
	"strings"
	"sync"

	"github.com/miekg/dns"
	vegeta "github.com/tsenart/vegeta/v12/lib"
)

func init() {
	register("C18", &Prop{ID: 18,
		N: func(tier string) int {
			if tier == "thorough" {
				return 1200
			}
			return 160
		},
		Run: runC18,
	})
}

// one in-process DNS server for all cases; names are c<idx>.verif.test
var dnsSrv struct {
	once  sync.Once
	mu    sync.RWMutex
	recs  map[string][]net.IP
	qcnt  map[string]int
	addr  string
	fatal error
}

func startDNS() {
	dnsSrv.recs = map[string][]net.IP{}
	dnsSrv.qcnt = map[string]int{}
	pc, err := net.ListenPacket("udp", "127.0.0.1:0")
	if err != nil {
		dnsSrv.fatal = err
		return
	}
	dnsSrv.addr = pc.LocalAddr().String()
	h := dns.HandlerFunc(func(w dns.ResponseWriter, r *dns.Msg) {
		m := new(dns.Msg)
		m.SetReply(r)
		m.Authoritative = true
		for _, q := range r.Question {
			name := strings.ToLower(strings.TrimSuffix(q.Name, "."))
			dnsSrv.mu.Lock()
			ips := dnsSrv.recs[name]
			dnsSrv.qcnt[name]++
			dnsSrv.mu.Unlock()
			for _, ip := range ips {
				if v4 := ip.To4(); v4 != nil && q.Qtype == dns.TypeA {
					m.Answer = append(m.Answer, &dns.A{Hdr: dns.RR_Header{Name: q.Name, Rrtype: dns.TypeA, Class: dns.ClassINET, Ttl: 60}, A: v4})
				} else if v4 == nil && q.Qtype == dns.TypeAAAA {
					m.Answer = append(m.Answer, &dns.AAAA{Hdr: dns.RR_Header{Name: q.Name, Rrtype: dns.TypeAAAA, Class: dns.ClassINET, Ttl: 60}, AAAA: ip})
				}
			}
		}
		w.WriteMsg(m)
	})
	srv := &dns.Server{PacketConn: pc, Handler: h}
	go srv.ActivateAndServe()
	net.DefaultResolver = &net.Resolver{PreferGo: true, Dial: func(ctx context.Context, network, _ string) (net.Conn, error) {
		var d net.Dialer
		return d.DialContext(ctx, "udp", dnsSrv.addr)
	}}
}

type dialKey struct{}

type recorder struct {
	mu    sync.Mutex
	calls map[int][]string
	other []string
}

func (r *recorder) dial(ctx context.Context, network, addr string) (net.Conn, error) {
	r.mu.Lock()
	if id, ok := ctx.Value(dialKey{}).(int); ok {
		r.calls[id] = append(r.calls[id], addr)
	} else {
		r.other = append(r.other, addr)
	}
	r.mu.Unlock()
	return nil, errors.New("recorded dial")
}

func runC18(idx int, rng *rand.Rand, tier string) []Case {
	dnsSrv.once.Do(startDNS)
	if dnsSrv.fatal != nil {
		panic(dnsSrv.fatal)
	}
	if idx%40 == 7 {
		return c18CLI(idx, rng)
	}
	if idx%40 == 11 {
		return c18Resolvers(rng)
	}
	if idx%40 == 15 {
		return c18ResolversCLI(idx, rng)
	}
	if idx%40 == 19 {
		return c18TTLFollows(idx, rng)
	}
	if idx%2 == 1 {
		return c18ConnectCases(idx, rng, tier)
	}
	// resolved set: 1..8 addresses, v4 only / v6 only / mixed
	n := 1 + rng.Intn(8)
	mode := rng.Intn(3)
	var ips []net.IP
	for i := 0; i < n; i++ {
		v4 := mode == 0 || (mode == 2 && rng.Intn(2) == 0)
		if mode == 2 && i == 0 {
			v4 = true
		}
		if mode == 2 && i == 1 {
			v4 = false
		}
		if v4 {
			ips = append(ips, net.IPv4(10, byte(idx%250), byte(i), 1))
		} else {
			ips = append(ips, net.ParseIP(fmt.Sprintf("fd00::%x:%x", idx%60000, i+1)))
		}
	}
	name := fmt.Sprintf("c%d.verif.test", idx)
	dnsSrv.mu.Lock()
	dnsSrv.recs[name] = ips
	dnsSrv.mu.Unlock()
	rec := &recorder{calls: map[int][]string{}}
	tr := &http.Transport{DialContext: rec.dial}
	opts := []func(*vegeta.Attacker){vegeta.Client(&http.Client{Transport: tr})}
	compose := rng.Intn(3)
	cmap := map[string][]string{"unrelated.test:80": {"10.9.9.9:1"}}
	switch compose {
	case 0:
		opts = append(opts, vegeta.DNSCaching(0))
	case 1:
		opts = append(opts, vegeta.DNSCaching(0), vegeta.ConnectTo(cmap))
	default:
		opts = append(opts, vegeta.ConnectTo(cmap), vegeta.DNSCaching(0))
	}
	atk := vegeta.NewAttacker(opts...)
	defer atk.Stop()
	dials := 100*n + rng.Intn(300)
	if idx%40 == 0 && tier == "thorough" {
		dials = 10000
	}
	if rng.Intn(5) == 0 {
		dials = 1 + rng.Intn(20)
	}
	conc := []int{1, 2, 8, 64}[rng.Intn(4)]
	var wg sync.WaitGroup
	var errs int64
	var emu sync.Mutex
	for g := 0; g < conc; g++ {
		wg.Add(1)
		go func(g int) {
			defer wg.Done()
			for i := g; i < dials; i += conc {
				// a dial that does not end at the recording dialer (it went somewhere else: the real
				// network, the system resolver) must not hold the run up: one second each, and a
				// caller gives up after a few of them - they are counted and judged
				ctx, cancel := context.WithTimeout(context.WithValue(context.Background(), dialKey{}, i), time.Second)
				_, err := tr.DialContext(ctx, "tcp", name+":80")
				cancel()
				if err == nil || !strings.Contains(err.Error(), "recorded dial") {
					emu.Lock()
					errs++
					giveUp := errs > 3
					emu.Unlock()
					if giveUp {
						return
					}
				}
			}
		}(g)
	}
	wg.Wait()
	id := map[string]int{}
	for i, ip := range ips {
		id[net.JoinHostPort(ip.String(), "80")] = i
	}
	var c Case
	w := &c.W
	w.Z(1)
	w.I(len(ips))
	for i, ip := range ips {
		w.I(i)
		w.Bool(ip.To4() != nil)
	}
	w.I(dials)
	for i := 0; i < dials; i++ {
		as := rec.calls[i]
		sort.Strings(as)
		w.I(len(as))
		for _, a := range as {
			if v, ok := id[a]; ok {
				w.I(v)
			} else {
				w.Z(-1)
			}
		}
	}
	w.Z(errs)
	// a TTL of 0 caches forever: the name is looked up when first needed (A and AAAA, possibly by
	// several of the first concurrent dials), not again for later connections
	dnsSrv.mu.Lock()
	queries := dnsSrv.qcnt[name]
	dnsSrv.mu.Unlock()
	w.I(queries)
	w.I(conc)
	c.Tag = fmt.Sprintf("dns.%d;nt", compose)
	c.Dist = fmt.Sprintf("dns/addrs%d/mode%d/compose%d/conc%d/dials%d", n, mode, compose, conc, sizeClass(dials))
	c.Sample = map[string]interface{}{"resolved": fmt.Sprint(ips), "dials": dials, "concurrency": conc, "options": []string{"DNSCaching", "DNSCaching,ConnectTo", "ConnectTo,DNSCaching"}[compose], "first_dials": [][]string{rec.calls[0], rec.calls[1]}}
	return []Case{c}
}

func c18ConnectCases(idx int, rng *rand.Rand, tier string) []Case {
	// 1..3 mapped source addresses, each with its own replacements; dials to them interleave
	nkeys := 1 + rng.Intn(3)
	keys := []string{"mapped.test:80", "second.test:80", "third.test:8080"}[:nkeys]
	repls := make([][]string, nkeys)
	m := map[string][]string{"other.test:443": {"10.2.2.2:443"}}
	for q := range keys {
		k := 1 + rng.Intn(6)
		for i := 0; i < k; i++ {
			repls[q] = append(repls[q], fmt.Sprintf("10.%d.%d.%d:%d", q+1, idx%250, i, 8000+i))
		}
		m[keys[q]] = repls[q]
	}
	rec := &recorder{calls: map[int][]string{}}
	tr := &http.Transport{DialContext: rec.dial}
	atk := vegeta.NewAttacker(vegeta.Client(&http.Client{Transport: tr}), vegeta.ConnectTo(m))
	defer atk.Stop()
	n := rng.Intn(200)
	conc := []int{1, 1, 4, 64}[rng.Intn(4)]
	which := make([]int, n) // the key each dial goes to
	for i := range which {
		which[i] = rng.Intn(nkeys)
	}
	var wg sync.WaitGroup
	for g := 0; g < conc; g++ {
		wg.Add(1)
		go func(g int) {
			defer wg.Done()
			for i := g; i < n; i += conc {
				ctx := context.WithValue(context.Background(), dialKey{}, i)
				tr.DialContext(ctx, "tcp", keys[which[i]])
			}
		}(g)
	}
	wg.Wait()
	// unmapped addresses pass through unchanged
	ctx := context.WithValue(context.Background(), dialKey{}, -7)
	tr.DialContext(ctx, "tcp", "unmapped.test:8080")
	pass := len(rec.calls[-7]) == 1 && rec.calls[-7][0] == "unmapped.test:8080"
	// the property is judged per mapped address: the case reports the first key's history
	// (all keys are checked: one case per key would repeat the set-up, so keys 2,3 are folded
	// into the pass-through flag when their rotation is uneven)
	var out []Case
	for q := range keys {
		var c Case
		w := &c.W
		w.Z(2)
		k := len(repls[q])
		w.I(k)
		w.Bool(conc == 1)
		var draws []int64
		for i := 0; i < n; i++ {
			if which[i] != q {
				continue
			}
			j := int64(-1)
			if as := rec.calls[i]; len(as) == 1 {
				for x, r := range repls[q] {
					if r == as[0] {
						j = int64(x)
					}
				}
			}
			draws = append(draws, j)
		}
		w.Zs(draws)
		w.Bool(pass)
		c.Tag = "connectto;nt"
		c.Dist = fmt.Sprintf("connectto/keys%d/k%d/conc%d/n%d", nkeys, k, conc, sizeClass(len(draws)))
		c.Sample = map[string]interface{}{"mapped": keys[q], "replacements": repls[q], "dials_to_it": len(draws), "mapped_keys": nkeys, "concurrency": conc}
		out = append(out, c)
	}
	return out
}

func clipStrs(s []string, n int) []string {
	if len(s) > n {
		return s[:n]
	}
	return s
}

// the attack command with -connect-to: whatever the other connection options are, the requests
// for a mapped address must reach its replacements, all of them over time
func c18CLI(idx int, rng *rand.Rand) []Case {
	nsrv := 1 + rng.Intn(3)
	hits := make([]int64, nsrv)
	var srvs []*httptest.Server
	var repl []string
	for i := 0; i < nsrv; i++ {
		i := i
		s := httptest.NewServer(http.HandlerFunc(func(w http.ResponseWriter, r *http.Request) {
			atomic.AddInt64(&hits[i], 1)
			w.Write([]byte("ok"))
		}))
		srvs = append(srvs, s)
		repl = append(repl, strings.TrimPrefix(s.URL, "http://"))
	}
	defer func() {
		for _, s := range srvs {
			s.Close()
		}
	}()
	keepalive := rng.Intn(2) == 0
	h2 := rng.Intn(2) == 0
	out := filepath.Join(scratchDir(), fmt.Sprintf("c18cli%d.bin", idx))
	defer os.Remove(out)
	args := []string{"attack", "-rate", "60", "-duration", "500ms", "-output", out, "-timeout", "15s",
		fmt.Sprintf("-keepalive=%v", keepalive), fmt.Sprintf("-http2=%v", h2)}
	host := []string{"mapped.invalid", "Mapped.Invalid"}[rng.Intn(2)] // spelled the same way in the flag and in the target
	for _, r := range repl {
		args = append(args, "-connect-to", host+":80:"+r)
	}
	cmd := exec.Command(os.Getenv("VERIF_VEGETA"), args...)
	cmd.Stdin = strings.NewReader("GET http://" + host + "/\n")
	runErr := cmd.Run()
	b, _ := os.ReadFile(out)
	rs, _ := decodeAll(vegeta.NewDecoder(bytes.NewReader(b)), 1<<20)
	okc := 0
	for _, r := range rs {
		if r.Code == 200 && r.Error == "" {
			okc++
		}
	}
	var c Case
	w := &c.W
	w.Z(3)
	w.Bool(runErr == nil)
	w.Bool(keepalive)
	w.I(len(rs)); w.I(okc)
	w.I(nsrv)
	for i := range hits {
		w.Z(atomic.LoadInt64(&hits[i]))
	}
	c.Tag = "cli.connectto;nt"
	c.Dist = fmt.Sprintf("cli/keepalive=%v/http2=%v/replacements%d", keepalive, h2, nsrv)
	c.Sample = map[string]interface{}{"args": args, "results": len(rs), "ok": okc, "hits_per_replacement": hits}
	return []Case{c}
}

// -resolvers: the DNS dials rotate over the given resolver addresses
func c18Resolvers(rng *rand.Rand) []Case {
	k := 1 + rng.Intn(8)
	addrs := make([]string, k)
	for i := range addrs {
		addrs[i] = fmt.Sprintf("10.0.0.%d:53", i+1)
	}
	n := 20 + rng.Intn(400)
	seq := driver("resolverseq", append(append([]string(nil), addrs...), strconv.Itoa(n))...).List
	var c Case
	w := &c.W
	w.Z(4)
	w.I(k)
	w.I(len(seq))
	for _, a := range seq {
		j := -1
		for i := range addrs {
			if addrs[i] == a {
				j = i
			}
		}
		w.I(j)
	}
	c.Tag = "resolvers;nt"
	c.Dist = fmt.Sprintf("resolvers/k%d", k)
	c.Sample = map[string]interface{}{"resolvers": k, "dials": n}
	return []Case{c}
}

// several name servers, each counting the queries it gets (all answer from the same records)
var dnsExtra struct {
	once  sync.Once
	addrs []string
	cnt   []int64
}

func startExtraDNS() {
	for i := 0; i < 3; i++ {
		pc, err := net.ListenPacket("udp", "127.0.0.1:0")
		if err != nil {
			panic(err)
		}
		i := i
		dnsExtra.addrs = append(dnsExtra.addrs, pc.LocalAddr().String())
		dnsExtra.cnt = append(dnsExtra.cnt, 0)
		h := dns.HandlerFunc(func(w dns.ResponseWriter, r *dns.Msg) {
			atomic.AddInt64(&dnsExtra.cnt[i], 1)
			m := new(dns.Msg)
			m.SetReply(r)
			m.Authoritative = true
			for _, q := range r.Question {
				if q.Qtype == dns.TypeA {
					m.Answer = append(m.Answer, &dns.A{Hdr: dns.RR_Header{Name: q.Name, Rrtype: dns.TypeA, Class: dns.ClassINET, Ttl: 60}, A: net.IPv4(127, 0, 0, 1)})
				}
			}
			w.WriteMsg(m)
		})
		go (&dns.Server{PacketConn: pc, Handler: h}).ActivateAndServe()
	}
}

var dnsExtraMu sync.Mutex

// the attack command with two or three -resolvers and caching off: the lookups of its
// connections must be spread over all of them (rotation through the resolver's dial function)
func c18ResolversCLI(idx int, rng *rand.Rand) []Case {
	dnsExtra.once.Do(startExtraDNS)
	dnsExtraMu.Lock() // the counters are shared: one such case at a time
	defer dnsExtraMu.Unlock()
	srv := httptest.NewServer(http.HandlerFunc(func(w http.ResponseWriter, r *http.Request) { w.Write([]byte("ok")) }))
	defer srv.Close()
	_, port, _ := net.SplitHostPort(strings.TrimPrefix(srv.URL, "http://"))
	k := 2 + rng.Intn(2)
	before := make([]int64, k)
	for i := 0; i < k; i++ {
		before[i] = atomic.LoadInt64(&dnsExtra.cnt[i])
	}
	out := filepath.Join(scratchDir(), fmt.Sprintf("c18res%d.bin", idx))
	defer os.Remove(out)
	args := []string{"attack", "-rate", "60", "-duration", "500ms", "-keepalive=false", "-dns-ttl=-1", "-timeout", "10s", "-output", out,
		"-resolvers", strings.Join(dnsExtra.addrs[:k], ",")}
	cmd := exec.Command(os.Getenv("VERIF_VEGETA"), args...)
	cmd.Stdin = strings.NewReader(fmt.Sprintf("GET http://c18res%d.verif.test:%s/\n", idx, port))
	runErr := cmd.Run()
	b, _ := os.ReadFile(out)
	rs, _ := decodeAll(vegeta.NewDecoder(bytes.NewReader(b)), 1<<20)
	okc := 0
	for _, r := range rs {
		if r.Code == 200 && r.Error == "" {
			okc++
		}
	}
	var c Case
	w := &c.W
	w.Z(5)
	w.Bool(runErr == nil)
	w.I(len(rs)); w.I(okc)
	w.I(k)
	var got []int64
	for i := 0; i < k; i++ {
		got = append(got, atomic.LoadInt64(&dnsExtra.cnt[i])-before[i])
		w.Z(got[i])
	}
	c.Tag = "cli.resolvers;nt"
	c.Dist = fmt.Sprintf("cli/resolvers%d", k)
	c.Sample = map[string]interface{}{"args": args, "results": len(rs), "ok": okc, "queries_per_resolver": got}
	return []Case{c}
}

// a positive DNS TTL: the cache is refreshed every TTL, so when the host's address changes the
// dials follow within a few TTLs (the name is kept in use all the time)
func c18TTLFollows(idx int, rng *rand.Rand) []Case {
	name := fmt.Sprintf("c18ttl%d.verif.test", idx)
	a1, a2 := net.IPv4(10, 77, byte(idx%250), 1), net.IPv4(10, 77, byte(idx%250), 2)
	dnsSrv.mu.Lock()
	dnsSrv.recs[name] = []net.IP{a1}
	dnsSrv.mu.Unlock()
	rec := &recorder{calls: map[int][]string{}}
	tr := &http.Transport{DialContext: rec.dial}
	ttl := time.Duration(40+rng.Intn(30)) * time.Millisecond
	atk := vegeta.NewAttacker(vegeta.Client(&http.Client{Transport: tr}), vegeta.DNSCaching(ttl))
	defer atk.Stop()
	n := 0
	dial := func() string {
		ctx := context.WithValue(context.Background(), dialKey{}, n)
		tr.DialContext(ctx, "tcp", name+":80")
		rec.mu.Lock()
		defer rec.mu.Unlock()
		as := rec.calls[n]
		n++
		if len(as) == 1 {
			return as[0]
		}
		return fmt.Sprint(as)
	}
	first := dial()
	for t := 0; t < 5; t++ { // keep the name in use while the first refreshes happen
		time.Sleep(25 * time.Millisecond)
		dial()
	}
	dnsSrv.mu.Lock()
	dnsSrv.recs[name] = []net.IP{a2}
	dnsSrv.mu.Unlock()
	for t := 0; t < 16; t++ { // 400 ms: more than five TTLs
		time.Sleep(25 * time.Millisecond)
		dial()
	}
	last := dial()
	id := func(a string) int64 {
		switch a {
		case net.JoinHostPort(a1.String(), "80"):
			return 0
		case net.JoinHostPort(a2.String(), "80"):
			return 1
		}
		return -1
	}
	var c Case
	w := &c.W
	w.Z(6)
	w.Z(int64(ttl))
	w.Z(id(first)); w.Z(id(last))
	c.Tag = "dns.ttl;nt"
	c.Dist = "dns/ttl follows"
	c.Sample = map[string]interface{}{"ttl": ttl.String(), "first_dial": first, "last_dial": last}
	return []Case{c}
}
