package main

import (
	"bytes"
	"fmt"
	"math/rand"
	"net"
	"net/http"
	"net/http/httptest"
	"os"
	"os/exec"
	"path/filepath"
	"strings"
	"sync/atomic"
	"time"

	vegeta "github.com/tsenart/vegeta/v12/lib"
)

// the attack command itself: an unlimited rate is refused unless -max-workers is given,
// whatever the other flags are
func c19GuardCLI(idx int, rng *rand.Rand) []Case {
	var served int64
	srv := httptest.NewServer(http.HandlerFunc(func(w http.ResponseWriter, r *http.Request) {
		atomic.AddInt64(&served, 1)
		w.Write([]byte("ok"))
	}))
	defer srv.Close()
	// the combinations are walked systematically: unlimited or not, lasting or not, capped or not
	j := idx / 300
	unl := []string{"0", "infinity", "0/5s", "0/ms", "0/1h"}
	lim := []string{"7", "30/1s", "2/100ms"}
	rate := lim[rng.Intn(len(lim))]
	if j%4 != 3 {
		rate = unl[rng.Intn(len(unl))]
	}
	dur := []string{"", "0"}[rng.Intn(2)]
	if j%2 == 0 {
		dur = []string{"200ms", "150ms", "1s", "400ms"}[rng.Intn(4)]
	}
	maxw := ""
	if (j/4)%3 == 2 {
		maxw = fmt.Sprint(1 + rng.Intn(3))
	}
	out := filepath.Join(scratchDir(), fmt.Sprintf("c19guard%d.bin", idx))
	defer os.Remove(out)
	// flags in random order
	fl := [][]string{{"-rate=" + rate}, {"-output", out}, {"-timeout", "5s"}}
	if dur != "" {
		fl = append(fl, []string{"-duration=" + dur})
	}
	if maxw != "" {
		fl = append(fl, []string{"-max-workers=" + maxw})
	}
	rng.Shuffle(len(fl), func(i, j int) { fl[i], fl[j] = fl[j], fl[i] })
	args := []string{"attack"}
	for _, f := range fl {
		args = append(args, f...)
	}
	cmd := exec.Command(os.Getenv("VERIF_VEGETA"), args...)
	cmd.Stdin = strings.NewReader("GET " + srv.URL + "/\n")
	var stderr bytes.Buffer
	cmd.Stderr = &stderr
	start := time.Now()
	if err := cmd.Start(); err != nil {
		panic(err)
	}
	done := make(chan error, 1)
	go func() { done <- cmd.Wait() }()
	// an attack with no (or a zero) duration runs until interrupted; one that is refused exits at once
	forever := dur == "" || dur == "0"
	limit := 8 * time.Second
	if forever {
		limit = 400 * time.Millisecond
	}
	var runErr error
	stopped := false
	select {
	case runErr = <-done:
	case <-time.After(limit):
		stopped = true
		cmd.Process.Signal(os.Interrupt)
		select {
		case runErr = <-done:
		case <-time.After(8 * time.Second):
			cmd.Process.Kill()
			runErr = <-done
		}
	}
	_ = start
	refused := !stopped && runErr != nil && strings.Contains(stderr.String(), "max-workers")
	b, _ := os.ReadFile(out)
	rs, _ := decodeAll(vegeta.NewDecoder(bytes.NewReader(b)), 1<<22)
	var c Case
	w := &c.W
	w.Z(7)
	w.Str(rate)
	w.Bool(dur != "")
	w.Bool(maxw != "")
	w.Bool(refused)
	w.Bool(runErr != nil && !stopped)
	w.I(len(rs))
	w.Z(atomic.LoadInt64(&served))
	c.Tag = "cli.guard;nt"
	c.Dist = fmt.Sprintf("cli/guard/rate=%s/duration=%s/maxworkers=%v", rate, dur, maxw != "")
	c.Sample = map[string]interface{}{"args": args, "refused": refused, "stderr": clipStr(stderr.String(), 200), "results": len(rs)}
	return []Case{c}
}

// -dns-ttl through the command: lookups are counted at the name server given with -resolvers
func c19DNSTTLCLI(idx int, rng *rand.Rand) []Case {
	dnsSrv.once.Do(startDNS)
	if dnsSrv.fatal != nil {
		panic(dnsSrv.fatal)
	}
	var served int64
	srv := httptest.NewServer(http.HandlerFunc(func(w http.ResponseWriter, r *http.Request) {
		atomic.AddInt64(&served, 1)
		w.Write([]byte("ok"))
	}))
	defer srv.Close()
	_, port, _ := net.SplitHostPort(strings.TrimPrefix(srv.URL, "http://"))
	name := fmt.Sprintf("c19cli%d.verif.test", idx)
	dnsSrv.mu.Lock()
	dnsSrv.recs[name] = []net.IP{net.IPv4(127, 0, 0, 1)}
	dnsSrv.mu.Unlock()
	ttls := []string{"-1", "0", "10s", "1m", ""}
	ttl := ttls[rng.Intn(len(ttls))]
	out := filepath.Join(scratchDir(), fmt.Sprintf("c19ttl%d.bin", idx))
	defer os.Remove(out)
	args := []string{"attack", "-rate", "50", "-duration", "600ms", "-keepalive=false", "-output", out, "-timeout", "10s",
		"-resolvers", dnsSrv.addr}
	if ttl != "" {
		args = append(args, "-dns-ttl="+ttl)
	}
	cmd := exec.Command(os.Getenv("VERIF_VEGETA"), args...)
	cmd.Stdin = strings.NewReader("GET http://" + name + ":" + port + "/\n")
	var stderr bytes.Buffer
	cmd.Stderr = &stderr
	runErr := cmd.Run()
	b, _ := os.ReadFile(out)
	rs, _ := decodeAll(vegeta.NewDecoder(bytes.NewReader(b)), 1<<20)
	okc := 0
	for _, r := range rs {
		if r.Code == 200 && r.Error == "" {
			okc++
		}
	}
	dnsSrv.mu.Lock()
	queries := dnsSrv.qcnt[name]
	dnsSrv.mu.Unlock()
	var c Case
	w := &c.W
	w.Z(8)
	if ttl == "" {
		w.Str("0")
	} else {
		w.Str(ttl)
	}
	w.Bool(runErr == nil)
	w.I(len(rs)); w.I(okc)
	w.I(queries)
	c.Tag = "cli.dnsttl;nt"
	c.Dist = fmt.Sprintf("cli/dns-ttl=%s", ttl)
	c.Sample = map[string]interface{}{"args": args, "results": len(rs), "ok": okc, "lookups_seen_by_name_server": queries, "stderr": clipStr(stderr.String(), 200)}
	return []Case{c}
}


// -connect-to through the command, with the other dial-related flags around it: every request
// for the mapped address must be answered by a replacement
func c19ConnectToCLI(idx int, rng *rand.Rand) []Case {
	var hits int64
	srv := httptest.NewServer(http.HandlerFunc(func(w http.ResponseWriter, r *http.Request) {
		atomic.AddInt64(&hits, 1)
		w.Write([]byte("ok"))
	}))
	defer srv.Close()
	repl := strings.TrimPrefix(srv.URL, "http://")
	keepalive := rng.Intn(2) == 0
	ttl := []string{"", "-1", "0", "30s"}[rng.Intn(4)]
	out := filepath.Join(scratchDir(), fmt.Sprintf("c19ct%d.bin", idx))
	defer os.Remove(out)
	host := []string{"mapped.invalid", "Mapped.Invalid", "MAPPED.invalid"}[rng.Intn(3)] // spelled the same way in the flag and in the target
	fl := [][]string{{"-rate", "40"}, {"-duration", "400ms"}, {"-output", out}, {"-timeout", "5s"},
		{fmt.Sprintf("-keepalive=%v", keepalive)}, {"-connect-to", host + ":80:" + repl}}
	if ttl != "" {
		fl = append(fl, []string{"-dns-ttl=" + ttl})
	}
	rng.Shuffle(len(fl), func(i, j int) { fl[i], fl[j] = fl[j], fl[i] })
	args := []string{"attack"}
	for _, f := range fl {
		args = append(args, f...)
	}
	cmd := exec.Command(os.Getenv("VERIF_VEGETA"), args...)
	cmd.Stdin = strings.NewReader("GET http://" + host + "/\n")
	runErr := cmd.Run()
	b, _ := os.ReadFile(out)
	rs, _ := decodeAll(vegeta.NewDecoder(bytes.NewReader(b)), 1<<20)
	okc := 0
	for _, r := range rs {
		if r.Code == 200 && r.Error == "" {
			okc++
		}
	}
	var c Case
	w := &c.W
	w.Z(9)
	w.Bool(runErr == nil)
	w.I(len(rs)); w.I(okc)
	w.Z(atomic.LoadInt64(&hits))
	c.Tag = "cli.connectto;nt"
	c.Dist = fmt.Sprintf("cli/connect-to/keepalive=%v/dns-ttl=%s", keepalive, ttl)
	c.Sample = map[string]interface{}{"args": args, "results": len(rs), "ok": okc, "served_by_replacement": hits}
	return []Case{c}
}
