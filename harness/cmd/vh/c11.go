package main

import (
	"bytes"
	"fmt"
	"math"
	"math/rand"
	"reflect"
	"sort"
	"strconv"
	"strings"
	"time"

	vegeta "github.com/tsenart/vegeta/v12/lib"
)

func init() {
	register("C11", &Prop{ID: 11,
		N: func(tier string) int {
			if tier == "thorough" {
				return 1200
			}
			return 260
		},
		Run: runC11,
	})
}

// latency data sets: the distributions and arrival orders the property quantifies over
func genC11(rng *rand.Rand, idx int, tier string) ([]int64, string) {
	var n int
	switch {
	case idx%40 == 7:
		n = 100000
		if tier != "thorough" {
			n = 30000
		}
	case idx%13 == 3:
		n = 5000 + rng.Intn(15000)
	case idx%5 == 0:
		n = 1 + rng.Intn(12)
	case idx%5 == 1:
		n = 790 + rng.Intn(30) // around the first process() of the digest (800 unprocessed)
	default:
		n = 1 + rng.Intn(3000)
	}
	kind := []string{"uniform", "lognormal", "constant", "fewvalued", "bimodal", "ramp", "heavytail"}[idx%7]
	xs := make([]int64, n)
	switch kind {
	case "uniform":
		hi := int64(1) << uint(1+rng.Intn(40))
		for i := range xs {
			xs[i] = rng.Int63n(hi)
		}
	case "lognormal":
		mu, sg := 10+rng.Float64()*8, 0.2+rng.Float64()*2
		for i := range xs {
			xs[i] = int64(math.Exp(mu + sg*rng.NormFloat64()))
		}
	case "constant":
		c := rng.Int63n(1e10)
		if rng.Intn(4) == 0 {
			c = 0
		}
		for i := range xs {
			xs[i] = c
		}
	case "fewvalued":
		k := 2 + rng.Intn(4)
		vals := make([]int64, k)
		for i := range vals {
			vals[i] = rng.Int63n(1e9)
		}
		for i := range xs {
			xs[i] = vals[rng.Intn(k)]
		}
	case "bimodal":
		lo, hi := rng.Int63n(1e6), int64(1e12)+rng.Int63n(1e12)
		p := 0.01 + rng.Float64()*0.98
		for i := range xs {
			if rng.Float64() < p {
				xs[i] = lo + rng.Int63n(1000)
			} else {
				xs[i] = hi + rng.Int63n(1000)
			}
		}
	case "ramp":
		step := 1 + rng.Int63n(1e6)
		for i := range xs {
			xs[i] = int64(i) * step
		}
	case "heavytail":
		for i := range xs {
			xs[i] = int64(1e6 / (1e-9 + math.Pow(rng.Float64(), 3)))
			if xs[i] < 0 || xs[i] > 1e15 {
				xs[i] = 1e15
			}
		}
	}
	order := []string{"random", "sorted", "reversed", "random"}[(idx/7)%4]
	switch order {
	case "sorted":
		sort.Slice(xs, func(i, j int) bool { return xs[i] < xs[j] })
	case "reversed":
		sort.Slice(xs, func(i, j int) bool { return xs[i] > xs[j] })
	default:
		if kind == "ramp" {
			rng.Shuffle(len(xs), func(i, j int) { xs[i], xs[j] = xs[j], xs[i] })
		}
	}
	return xs, kind + "/" + order
}

// the processed state of the digest behind m.Latencies, read by reflection (no hook needed)
func digestState(m *vegeta.Metrics) (means []float64, weights []float64, mn, mx float64, ok bool) {
	defer func() {
		if recover() != nil {
			ok = false
		}
	}()
	est := reflect.ValueOf(m).Elem().FieldByName("Latencies").FieldByName("estimator")
	td := est.Elem().Elem().Field(0).Elem() // interface -> *tdigestEstimator -> struct -> *TDigest -> struct
	if td.FieldByName("unprocessed").Len() != 0 {
		return nil, nil, 0, 0, false
	}
	pr := td.FieldByName("processed")
	for i := 0; i < pr.Len(); i++ {
		means = append(means, pr.Index(i).FieldByName("Mean").Float())
		weights = append(weights, pr.Index(i).FieldByName("Weight").Float())
	}
	return means, weights, td.FieldByName("min").Float(), td.FieldByName("max").Float(), true
}

// fixed corpus, run first: the witness of the known finding C11-rank-gaps and its mirror images
func c11Corpus(idx int) ([]int64, string, bool) {
	mk := func(a, na, b, nb int64) []int64 {
		var xs []int64
		for i := int64(0); i < na; i++ {
			xs = append(xs, a)
		}
		for i := int64(0); i < nb; i++ {
			xs = append(xs, b)
		}
		return xs
	}
	switch idx {
	case 0:
		return mk(1e6, 484, 2e6, 516), "fewvalued/sorted", true
	case 1:
		xs := mk(1e6, 513, 2e6, 487)
		for i, j := 0, len(xs)-1; i < j; i, j = i+1, j-1 {
			xs[i], xs[j] = xs[j], xs[i]
		}
		return xs, "fewvalued/reversed", true
	case 2:
		return mk(1e6, 885, 5e9, 115), "fewvalued/sorted", true
	case 3:
		return mk(1e6, 492, 2e6, 508), "fewvalued/sorted", true
	}
	return nil, "", false
}

func runC11(idx int, rng *rand.Rand, tier string) []Case {
	xs, name, fixed := c11Corpus(idx)
	if !fixed {
		xs, name = genC11(rng, idx, tier)
	}
	var m vegeta.Metrics
	base := time.Unix(1600000000, 0)
	// results of every kind carry a latency: answered, refused by the server, and without any
	// response at all (status 0: timeout, connection refused)
	codes := []uint16{200, 200, 200, 0, 503, 0, 404, 200}
	early := idx%2 == 1 // Close once half-way, take the HDR report before the final Close
	var hdr bytes.Buffer
	for i, x := range xs {
		m.Add(&vegeta.Result{Code: codes[rng.Intn(len(codes))], Timestamp: base.Add(time.Duration(i) * time.Millisecond), Latency: time.Duration(x)})
		if early && i == len(xs)/2 {
			m.Close()
		}
	}
	if early {
		_ = vegeta.NewHDRHistogramPlotReporter(&m).Report(&hdr)
	}
	m.Close()
	if !early {
		_ = vegeta.NewHDRHistogramPlotReporter(&m).Report(&hdr)
	}
	var c Case
	w := &c.W
	w.Z(1)
	w.I(len(xs))
	sorted := append([]int64(nil), xs...)
	sort.Slice(sorted, func(i, j int) bool { return sorted[i] < sorted[j] })
	w.Zs(sorted)
	means, weights, mn, mx, ok := digestState(&m)
	if !ok {
		means, weights = nil, nil
	}
	w.I(len(means))
	for i := range means {
		w.F(means[i])
		w.Z(int64(weights[i]))
	}
	w.F(mn)
	w.F(mx)
	l := m.Latencies
	w.Z(int64(l.Min)); w.Z(int64(l.Max))
	w.Z(int64(l.P50)); w.Z(int64(l.P90)); w.Z(int64(l.P95)); w.Z(int64(l.P99))
	for _, q := range []float64{0.50, 0.90, 0.95, 0.99} {
		w.F(q)
	}
	// the HDR report rows: Value(ms) Percentile TotalCount 1/(1-Percentile)
	buf := hdr
	type row struct{ q, v int64 }
	var rows []row
	for i, line := range strings.Split(buf.String(), "\n") {
		f := strings.Fields(line)
		if i == 0 || len(f) < 4 {
			continue
		}
		v, ok1 := fixed6(f[0])
		q, ok2 := fixed6(f[1])
		if ok1 && ok2 {
			rows = append(rows, row{q, v})
		}
	}
	w.I(len(rows))
	for _, r := range rows {
		w.Z(r.q); w.Z(r.v)
	}
	// data with tied values or a huge gap: the class of the known finding (clause 2 only)
	distinct := 1
	for i := 1; i < len(sorted); i++ {
		if sorted[i] != sorted[i-1] {
			distinct++
		}
	}
	kind := strings.Split(name, "/")[0]
	if kind == "bimodal" || (distinct > 1 && distinct*4 <= len(xs)) {
		kind = "gaps." + kind
	}
	c.Tag = kind + ";nt"
	sz := "n<=12"
	switch {
	case len(xs) > 20000:
		sz = "n>20000"
	case len(xs) > 3000:
		sz = "n>3000"
	case len(xs) > 12:
		sz = "n<=3000"
	}
	c.Dist = name + " " + sz
	c.Sample = map[string]interface{}{"data": name, "n": len(xs), "centroids": len(means),
		"p50": int64(l.P50), "p99": int64(l.P99), "min": int64(l.Min), "max": int64(l.Max), "hdr_rows": len(rows)}
	return []Case{c}
}

// "12.345678" -> 12345678 (the report prints six decimals: nanoseconds for a value in ms)
func fixed6(s string) (int64, bool) {
	neg := strings.HasPrefix(s, "-")
	s = strings.TrimPrefix(s, "-")
	parts := strings.SplitN(s, ".", 2)
	if len(parts) != 2 || len(parts[1]) != 6 {
		return 0, false
	}
	v, err := strconv.ParseInt(parts[0]+parts[1], 10, 64)
	if err != nil {
		return 0, false
	}
	if neg {
		v = -v
	}
	return v, true
}

var _ = fmt.Sprint
