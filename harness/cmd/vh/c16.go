package main

import (
	"bufio"
	"bytes"
	"encoding/json"
	"fmt"
	"io"
	"math/rand"
	"net/http"
	"os"
	"os/exec"
	"path/filepath"
	"runtime"
	"strings"
	"sync"
	"time"
	"unicode/utf8"

	vegeta "github.com/tsenart/vegeta/v12/lib"
)

func init() {
	register("C16", &Prop{ID: 16,
		N: func(tier string) int {
			if tier == "thorough" {
				return 400000
			}
			return 36000
		},
		Run: runC16,
	})
}

const (
	c16Timeout  = 6 * time.Second
	c16Value    = 0
	c16Error    = 1
	c16Panic    = 2
	c16Hang     = 3
	c16NoEnd    = 5 // call budget used up without an error: the parser keeps yielding values
	c16AllocFix = 64 << 20
)

var c16Parsers = []string{"gob", "csv", "json", "auto", "http-targets", "json-targets", "buckets", "rate", "header", "max-body", "connect-to", "resolvers", "commands"}

// all measured parser calls are serialised: TotalAlloc deltas then belong to the call
var c16mu sync.Mutex

// ---- valid documents of every format ---------------------------------------------------------
func c16Valid(rng *rand.Rand, parser int) []byte {
	if parser == 12 {
		parser = 3 // the commands read result streams in any of the three encodings
	}
	switch parser {
	case 0, 1, 2, 3:
		n := 1 + rng.Intn(4)
		rs := make([]vegeta.Result, n)
		for i := range rs {
			rs[i] = genCodecResult(rng, false)
		}
		f := []string{"gob", "csv", "json"}[rng.Intn(3)]
		if parser < 3 {
			f = []string{"gob", "csv", "json"}[parser]
		}
		return encodeResults(rs, f)
	case 4:
		var b bytes.Buffer
		n := 1 + rng.Intn(5)
		for i := 0; i < n; i++ {
			if rng.Intn(4) == 0 {
				b.WriteString("# a comment\n")
			}
			fmt.Fprintf(&b, "%s http://host%d:80/p?q=%d\n", []string{"GET", "POST", "PUT", "DELETE", "HEAD"}[rng.Intn(5)], i, rng.Intn(100))
			for h := rng.Intn(3); h > 0; h-- {
				fmt.Fprintf(&b, "X-Hdr-%d: v%d\n", h, rng.Intn(9))
			}
			if rng.Intn(3) == 0 {
				fmt.Fprintf(&b, "@body%d\n", rng.Intn(4))
			}
			if rng.Intn(2) == 0 {
				b.WriteString("\n")
			}
		}
		return b.Bytes()
	case 5:
		var b bytes.Buffer
		n := 1 + rng.Intn(4)
		for i := 0; i < n; i++ {
			t := map[string]interface{}{"method": []string{"GET", "POST"}[rng.Intn(2)], "url": fmt.Sprintf("http://h/%d", i)}
			if rng.Intn(2) == 0 {
				t["header"] = map[string][]string{"X-A": {"1", "2"}, "Content-Type": {"text/plain"}}
			}
			if rng.Intn(2) == 0 {
				t["body"] = []byte("hello body")
			}
			j, _ := json.Marshal(t)
			b.Write(j)
			b.WriteByte('\n')
		}
		return b.Bytes()
	case 6:
		return []byte([]string{"[0,1ms,10ms,100ms]", "[0, 500us, 2s]", "[1h,2h]", "[0,1ns]", "[ 5ms , 1m ]"}[rng.Intn(5)])
	case 7:
		return []byte([]string{"50/1s", "100", "0", "infinity", "7/250ms", "1000000/1m", "3/2h"}[rng.Intn(7)])
	case 8:
		return []byte([]string{"Content-Type: text/plain", "X-A:b", "Host: example.com", "A: b: c", "Accept:  */*  "}[rng.Intn(5)])
	case 9:
		return []byte([]string{"-1", "0", "10", "1KB", "2MB", "1.5GB", "100B", "1 kb"}[rng.Intn(8)])
	case 10:
		return []byte([]string{"example.com:80:127.0.0.1:8080", "a:1:b:2", "[::1]:80:[::2]:81", "h:443:10.0.0.1:443"}[rng.Intn(4)])
	default:
		return []byte([]string{"8.8.8.8", "1.1.1.1:53,8.8.4.4", "[::1]:5353", "ns.example.com:53,10.0.0.1"}[rng.Intn(4)])
	}
}

var c16Dict = [][]byte{[]byte("\t"), []byte("\r"), []byte("\f"), []byte("\n"), []byte(" "), []byte(":"), []byte("@"), []byte("#"), []byte("\""), []byte(","), []byte("{"), []byte("}"),
	[]byte("["), []byte("]"), {0}, {0xff}, {0x80}, []byte("-"), []byte("+"), []byte("/"), []byte("\\"), []byte("9"), []byte("0"), []byte(" "), []byte(" "), []byte("\r\n"),
	[]byte("null"), []byte("1e999"), []byte("99999999999999999999999"), []byte("GET"), []byte("http://"), []byte("infinity"), []byte("ns"), []byte("\\u00"), {0xfe, 0xff, 0xff, 0xff, 0xff, 0xff, 0xff, 0xff, 0x7f}}

func c16Mutate(rng *rand.Rand, b []byte, other []byte) ([]byte, string) {
	b = append([]byte(nil), b...)
	ops := 1 + rng.Intn(3)
	name := ""
	for ; ops > 0; ops-- {
		if len(b) == 0 {
			b = append(b, c16Dict[rng.Intn(len(c16Dict))]...)
			name += "+ins"
			continue
		}
		i := rng.Intn(len(b))
		switch rng.Intn(8) {
		case 0:
			b[i] ^= 1 << uint(rng.Intn(8))
			name += "+flip"
		case 1:
			j := i + 1 + rng.Intn(1+min(len(b)-i-1, 16))
			b = append(b[:i], b[min(j, len(b)):]...)
			name += "+del"
		case 2:
			j := min(len(b), i+1+rng.Intn(32))
			dup := append([]byte(nil), b[i:j]...)
			reps := 1 + rng.Intn(3)
			for ; reps > 0; reps-- {
				b = append(b[:j], append(dup, b[j:]...)...)
			}
			name += "+dup"
		case 3:
			b = b[:i]
			name += "+trunc"
		case 4:
			if len(other) > 0 {
				k := rng.Intn(len(other))
				b = append(b[:i], other[k:]...)
			}
			name += "+splice"
		case 5:
			d := c16Dict[rng.Intn(len(c16Dict))]
			b = append(b[:i], append(append([]byte(nil), d...), b[i:]...)...)
			name += "+ins"
		case 6: // substitute one byte by a dictionary entry (blank -> tab, ...)
			d := c16Dict[rng.Intn(len(c16Dict))]
			b = append(b[:i], append(append([]byte(nil), d...), b[i+1:]...)...)
			name += "+subst"
		default: // substitute every blank / every colon
			from, to := []byte(" "), c16Dict[rng.Intn(6)]
			if rng.Intn(2) == 0 {
				from = []byte(":")
			}
			b = bytes.Replace(b, from, to, 1+rng.Intn(2))
			name += "+blank"
		}
	}
	return b, name[1:]
}

// hand-written edge inputs per parser, drawn now and then
var c16Edge = map[int][]string{
	0:  {"", "\x00", "\xff\xff\xff\xff\xff\xff\xff\xff\xff", "\x03\x01\x02"},
	1:  {"1,200,3\n", "1,2\n", ",,,,,,,,,,,\n", "1,200,3,4,5,err,,a,7,GET,u\n", "\n\n", "\"", "1,200,3,4,5,,,,9,GET,http://x,%%%\n"},
	2:  {"{}", "{}\n", "null\n", "[]\n", "{\"timestamp\":\"x\"}\n", "{\"body\":\"***\"}\n", "\n", "{\"latency\":1e400}\n"},
	3:  {"1,200,3\n", "{}\n", "", "\n", " ", "1,2,3,4,5,6\n"},
	4:  {"GET\thttp://h/\n", "GET\rhttp://h/\n", "GET \n", " \n", "GET http://h/\n:\n", "GET http://h/\n@\n", "GET http://h/\nX\n", "#\n", "GET http://h/\n@/nonexistent/zzz\n"},
	5:  {"{}\n", "\n\n", "{\"method\":\"GET\"}\n", "{\"method\":\"GET\",\"url\":\"http://h\",\"header\":null}\n", "[", "{\"body\":\"!!\"}\n", "null\n"},
	6:  {"  ", "\t\t", "\r\n", "[]", "[ ]", "[,]", "[", "]", "][", "[0", "[-1s]", "[1ns,1ns]", "[9223372036854775807ns,1h]", "   []   "},
	7:  {"/", "1/", "50/", "-3/", "0/", "50//", "/s", "1/0", "1/-1s", "-5/s", "9223372036854775808", "1/9223372036854775807h", "1//s", "0x1/s"},
	8:  {":", "", " : ", "a:", ":b", "a:b:c", "\x00:\x00"},
	9:  {"", " ", "B", "-0", "1e3", "9999999999999999999999GB", "1.5.5MB"},
	10: {":::", "a:b:c", "::::", "a:1:b", "a:1:b:2:c", "[::1]:80:[::2]:81", "a:x:b:y"},
	11: {"", ",", ",,", ":", "[", "[::1", "1.2.3.4:99999", "a,b,c,"},
	12: {"", "\n", "x", "1,2,3\n", "{}\n", "\x00\x01"},
}

func c16Input(rng *rand.Rand, parser int, idx int) ([]byte, string) {
	if e := c16Edge[parser]; idx/len(c16Parsers) < len(e) {
		return []byte(e[idx/len(c16Parsers)]), "edge" // every edge input once, whatever the seed
	}
	if rng.Intn(25) == 0 {
		e := c16Edge[parser]
		return []byte(e[rng.Intn(len(e))]), "edge"
	}
	switch rng.Intn(10) {
	case 0: // random bytes
		b := make([]byte, rng.Intn(200))
		rng.Read(b)
		return b, "random"
	case 1:
		return c16Valid(rng, parser), "valid"
	case 2: // a document of another format
		return c16Valid(rng, rng.Intn(len(c16Parsers))), "foreign"
	default:
		b, _ := c16Mutate(rng, c16Valid(rng, parser), c16Valid(rng, rng.Intn(len(c16Parsers))))
		return b, "mutated"
	}
}

// body files: every "@path" line is redirected into the sandbox (some exist, some do not)
func c16Sandbox(b []byte) []byte {
	dir := filepath.Join(scratchDir(), "c16box")
	c16boxOnce.Do(func() {
		os.MkdirAll(dir, 0o755)
		os.WriteFile(filepath.Join(dir, "b0"), []byte("body zero"), 0o644)
		os.WriteFile(filepath.Join(dir, "b1"), bytes.Repeat([]byte("x"), 5000), 0o644)
	})
	lines := bytes.Split(b, []byte("\n"))
	for i, l := range lines {
		t := bytes.TrimSpace(l)
		if len(t) > 0 && t[0] == '@' {
			h := 0
			for _, c := range t {
				h = h*31 + int(c)
			}
			lines[i] = []byte("@" + filepath.Join(dir, fmt.Sprintf("b%d", (h&0x7fffffff)%4)))
		}
	}
	return bytes.Join(lines, []byte("\n"))
}

var c16boxOnce sync.Once
var c16Hangs = map[int]int{}

// one guarded call: class and what it allocated
func c16Call(f func() bool) (class int, alloc uint64) {
	done := make(chan int, 1)
	var m0, m1 runtime.MemStats
	runtime.ReadMemStats(&m0)
	go func() {
		defer func() {
			if recover() != nil {
				done <- c16Panic
			}
		}()
		if f() {
			done <- c16Value
		} else {
			done <- c16Error
		}
	}()
	select {
	case class = <-done:
	case <-time.After(c16Timeout):
		class = c16Hang
	}
	runtime.ReadMemStats(&m1)
	return class, m1.TotalAlloc - m0.TotalAlloc
}

// a flag parser in the vegeta process of this tree (verif driver); a dead or silent process is an observation
type c16drv struct {
	cmd *exec.Cmd
	in  *bufio.Writer
	out *bufio.Reader
}

var c16d c16drv

func c16Flag(op string, value string) (class int) {
	if c16d.cmd == nil {
		cmd := exec.Command(os.Getenv("VERIF_VEGETA"))
		cmd.Env = append(os.Environ(), "VERIF_DRIVER=1")
		stdin, _ := cmd.StdinPipe()
		stdout, _ := cmd.StdoutPipe()
		if err := cmd.Start(); err != nil {
			panic(err)
		}
		c16d = c16drv{cmd, bufio.NewWriter(stdin), bufio.NewReaderSize(stdout, 1<<20)}
	}
	req, _ := json.Marshal(map[string]interface{}{"op": op, "values": []string{value}})
	c16d.in.Write(req)
	c16d.in.WriteByte('\n')
	c16d.in.Flush()
	type ans struct {
		line []byte
		err  error
	}
	ch := make(chan ans, 1)
	rd := c16d.out
	go func() {
		l, err := rd.ReadBytes('\n')
		ch <- ans{l, err}
	}()
	select {
	case a := <-ch:
		if a.err != nil { // the process died: a panic inside the flag parser
			c16d.cmd.Wait()
			c16d.cmd = nil
			return c16Panic
		}
		var r struct {
			Errs []string `json:"errs"`
		}
		if json.Unmarshal(a.line, &r) != nil {
			return c16Error
		}
		for _, e := range r.Errs {
			if e != "" {
				return c16Error
			}
		}
		return c16Value
	case <-time.After(c16Timeout):
		c16d.cmd.Process.Kill()
		c16d.cmd.Wait()
		c16d.cmd = nil
		return c16Hang
	}
}

func runC16(idx int, rng *rand.Rand, tier string) []Case {
	parser := idx % len(c16Parsers)
	in, how := c16Input(rng, parser, idx)
	if parser >= 7 && !utf8.Valid(in) {
		in = []byte(strings.ToValidUTF8(string(in), "?")) // flag values travel as JSON strings
	}
	if parser == 4 {
		in = c16Sandbox(in)
	}
	if parser == 12 {
		if e := c16Edge[12]; idx/len(c16Parsers) >= len(e) && (idx/len(c16Parsers))%8 != 0 {
			return nil // a process per case: one case in eight
		}
		return c16Command(idx, rng, in, how)
	}
	c16mu.Lock()
	defer c16mu.Unlock()
	if c16Hangs[parser] >= 3 {
		return nil // this parser has stopped answering three times already; more of the same tells nothing new
	}

	budget := len(in) + 3 // no parser can yield more values than this from len(in) bytes
	values, final := 0, c16NoEnd
	var alloc uint64
	var after []int
	step := func(call func() bool) {
		for n := 0; n < budget; n++ {
			cl, a := c16Call(call)
			alloc += a
			if cl == c16Value {
				values++
				continue
			}
			final = cl
			break
		}
		// a parser that reported the end (or an error) must keep answering
		if final == c16Error {
			for k := 0; k < 2; k++ {
				cl, a := c16Call(call)
				alloc += a
				after = append(after, cl)
				if cl == c16Hang || cl == c16Panic {
					break
				}
			}
		}
	}
	switch parser {
	case 0, 1, 2, 3:
		var dec vegeta.Decoder
		cl, a := c16Call(func() bool {
			switch parser {
			case 0:
				dec = vegeta.NewDecoder(bytes.NewReader(in))
			case 1:
				dec = vegeta.NewCSVDecoder(bytes.NewReader(in))
			case 2:
				dec = vegeta.NewJSONDecoder(bytes.NewReader(in))
			default:
				dec = vegeta.DecoderFor(bytes.NewReader(in))
			}
			return dec != nil
		})
		alloc += a
		if cl != c16Value {
			final = cl
			break
		}
		step(func() bool {
			var r vegeta.Result
			return dec.Decode(&r) == nil
		})
	case 4, 5:
		var tr vegeta.Targeter
		hdr := http.Header{"X-Default": {"d"}}
		cl, a := c16Call(func() bool { // what the constructor allocates belongs to the parser as well
			if parser == 4 {
				tr = vegeta.NewHTTPTargeter(bytes.NewReader(in), []byte("default body"), hdr)
			} else {
				tr = vegeta.NewJSONTargeter(bytes.NewReader(in), []byte("default body"), hdr)
			}
			return tr != nil
		})
		alloc += a
		if cl != c16Value {
			final = cl
			break
		}
		step(func() bool {
			var t vegeta.Target
			return tr(&t) == nil
		})
	case 6:
		cl, a := c16Call(func() bool {
			var bs vegeta.Buckets
			return bs.UnmarshalText(in) == nil
		})
		alloc, final = a, cl
		if cl == c16Value {
			values, final = 1, c16Error
		}
	default:
		op := []string{"rate", "headers", "maxbody", "connectto", "resolvers"}[parser-7]
		cl := c16Flag(op, string(in))
		final = cl
		if cl == c16Value {
			values, final = 1, c16Error
		}
	}

	if final == c16Hang || (len(after) > 0 && after[len(after)-1] == c16Hang) {
		c16Hangs[parser]++
	}
	var c Case
	w := &c.W
	w.Z(1)
	w.I(parser)
	w.Bytes(in)
	w.I(values)
	w.I(final)
	w.I(len(after))
	for _, a := range after {
		w.I(a)
	}
	w.U(alloc)
	c.Tag = c16Parsers[parser] + ";nt"
	sz := "len<64"
	if len(in) >= 1024 {
		sz = "len>=1024"
	} else if len(in) >= 64 {
		sz = "len<1024"
	}
	outc := []string{"value", "error", "panic", "hang", "", "no-end"}[final]
	if values > 0 {
		outc = "values+" + outc
	}
	c.Dist = c16Parsers[parser] + " " + how + " " + sz + " -> " + outc
	c.Sample = map[string]interface{}{"parser": c16Parsers[parser], "input": fmt.Sprintf("%q", trunc(string(in), 120)), "how": how, "values": values, "final": final}
	return []Case{c}
}

func trunc(s string, n int) string {
	if len(s) > n {
		return s[:n]
	}
	return s
}

var _ = io.EOF


// the report / encode / plot commands reading arbitrary bytes from a file: each must end by itself
// within the time limit, with a bounded amount of output, and without a Go panic
type capWriter struct {
	n    int64
	over chan struct{}
}

func (c *capWriter) Write(p []byte) (int, error) {
	c.n += int64(len(p))
	if c.n > 64<<20 {
		select {
		case c.over <- struct{}{}:
		default:
		}
	}
	return len(p), nil
}

func c16Command(idx int, rng *rand.Rand, in []byte, how string) []Case {
	f := writeTemp(idx, "c16cmd.bin", in)
	defer os.Remove(f)
	sub := [][]string{{"report"}, {"report", "-type", "json"}, {"encode", "-to", "csv"}, {"encode"}, {"plot"}}[rng.Intn(5)]
	args := append(append([]string(nil), sub...), f)
	if rng.Intn(4) == 0 {
		args = append(args, f) // the same file twice: the several-inputs path
	}
	cmd := exec.Command(os.Getenv("VERIF_VEGETA"), args...)
	cw := &capWriter{over: make(chan struct{}, 1)}
	var errb bytes.Buffer
	cmd.Stdout = cw
	cmd.Stderr = &errb
	if err := cmd.Start(); err != nil {
		panic(err)
	}
	done := make(chan error, 1)
	go func() { done <- cmd.Wait() }()
	final := c16Error
	select {
	case <-done:
		if strings.Contains(errb.String(), "panic:") || strings.Contains(errb.String(), "goroutine 1 [") {
			final = c16Panic
		}
	case <-cw.over:
		cmd.Process.Kill()
		<-done
		final = c16Hang // unbounded output from a bounded input
	case <-time.After(c16Timeout):
		cmd.Process.Kill()
		<-done
		final = c16Hang
	}
	var c Case
	w := &c.W
	w.Z(1)
	w.I(12)
	w.Bytes(in)
	w.I(0)
	w.I(final)
	w.I(0)
	w.U(0)
	c.Tag = "commands;nt"
	c.Dist = "commands " + sub[0] + " " + how + " -> " + []string{"value", "returned", "panic", "hang"}[final]
	c.Sample = map[string]interface{}{"command": strings.Join(sub, " "), "input": fmt.Sprintf("%q", trunc(string(in), 80)), "outcome": final, "stderr": trunc(errb.String(), 160)}
	return []Case{c}
}
