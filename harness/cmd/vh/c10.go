package main

import (
	"strings"
	"os"
	"bytes"
	"encoding/json"
	"fmt"
	"math/rand"
	"sort"
	"strconv"
	"time"

	vegeta "github.com/tsenart/vegeta/v12/lib"
)

func init() {
	register("C10", &Prop{ID: 10,
		N: func(tier string) int {
			if tier == "thorough" {
				return 3000
			}
			return 400
		},
		Run: runC10,
	})
}

type c10res struct {
	code          uint16
	ts, lat       int64
	bout, bin     uint64
	err           int // 0 = none
}

var c10errs = []string{"", "Get \"http://x\": dial tcp: connection refused", "500 Internal Server Error", "EOF", "context deadline exceeded (Client.Timeout exceeded while awaiting headers)", "404 Not Found", "x", "érreur ünicode"}

type c10report struct {
	Latencies struct {
		Total, Mean, Max, Min int64
	} `json:"latencies"`
	BytesIn struct {
		Total uint64  `json:"total"`
		Mean  float64 `json:"mean"`
	} `json:"bytes_in"`
	BytesOut struct {
		Total uint64  `json:"total"`
		Mean  float64 `json:"mean"`
	} `json:"bytes_out"`
	Earliest    time.Time      `json:"earliest"`
	Latest      time.Time      `json:"latest"`
	End         time.Time      `json:"end"`
	Duration    int64          `json:"duration"`
	Wait        int64          `json:"wait"`
	Requests    uint64         `json:"requests"`
	Rate        float64        `json:"rate"`
	Throughput  float64        `json:"throughput"`
	Success     float64        `json:"success"`
	StatusCodes map[string]int `json:"status_codes"`
	Errors      []string       `json:"errors"`
}

func genC10(rng *rand.Rand, idx int, tier string) []c10res {
	n := 0
	switch rng.Intn(10) {
	case 0:
		n = 0
	case 1:
		n = 1
	case 2:
		n = 2
	case 3:
		n = 200 + rng.Intn(2000)
	default:
		n = rng.Intn(60)
	}
	if idx%97 == 5 {
		n = 20000
		if tier == "thorough" {
			n = 100000
		}
	}
	base := int64(rng.Int63n(7e18)) // 1970 .. 2191
	tsMode := rng.Intn(4)
	latMode := rng.Intn(4)
	codes := []uint16{200, 200, 200, 201, 302, 399, 400, 404, 500, 503, 0, 199, 100, 599}
	rs := make([]c10res, n)
	for i := range rs {
		r := &rs[i]
		switch tsMode {
		case 0: // all equal
			r.ts = base
		case 1:
			r.ts = base + int64(i)*int64(1+rng.Intn(1000))*1000
		case 2:
			r.ts = base + int64(n-i)*1000003
		default:
			r.ts = base + rng.Int63n(1e12)
		}
		switch latMode {
		case 0:
			r.lat = 0
		case 1:
			r.lat = int64(rng.Intn(3))
		case 2:
			r.lat = rng.Int63n(1e9)
		default:
			if rng.Intn(4) == 0 {
				r.lat = 0
			} else {
				r.lat = rng.Int63n(1e13)
			}
		}
		r.code = codes[rng.Intn(len(codes))]
		if rng.Intn(3) == 0 {
			r.bin = uint64(rng.Int63n(1e6))
		}
		if rng.Intn(3) == 0 {
			r.bout = uint64(rng.Int63n(1e4))
		}
		if rng.Intn(50) == 0 {
			r.bin = uint64(rng.Int63n(1e15))
		}
		if r.code < 200 || r.code >= 400 || rng.Intn(20) == 0 {
			r.err = 1 + rng.Intn(len(c10errs)-1)
		}
	}
	return rs
}

func runC10(idx int, rng *rand.Rand, tier string) []Case {
	var rs []c10res
	if idx < len(c10Corpus) {
		rs = c10Corpus[idx]
	} else {
		rs = genC10(rng, idx, tier)
	}
	var out []Case
	nvar := 4
	if len(rs) > 5000 {
		nvar = 2
	}
	for v := 0; v < nvar; v++ {
		order := make([]int, len(rs))
		for i := range order {
			order[i] = i
		}
		name := "inorder"
		switch v {
		case 1:
			for i, j := 0, len(order)-1; i < j; i, j = i+1, j-1 {
				order[i], order[j] = order[j], order[i]
			}
			name = "reversed"
		case 2, 3:
			rng.Shuffle(len(order), func(i, j int) { order[i], order[j] = order[j], order[i] })
			name = "shuffled"
		}
		closeEvery := 0
		switch v {
		case 1:
			closeEvery = 1
		case 3:
			closeEvery = 2 + rng.Intn(7)
		}
		out = append(out, c10Case(rs, order, closeEvery, name, false, idx))
	}
	if len(rs) > 0 && len(rs) <= 3000 && idx%3 == 0 {
		// the report command on a gob file holding the same results in a shuffled order
		order := rng.Perm(len(rs))
		out = append(out, c10Case(rs, order, 0, "cli", true, idx))
	}
	return out
}

func c10Case(rs []c10res, order []int, closeEvery int, name string, cli bool, idx int) Case {
	var c Case
	w := &c.W
	w.Z(1)
	var m vegeta.Metrics
	type op struct {
		close bool
		r     c10res
	}
	var ops []op
	if closeEvery == 1 {
		ops = append(ops, op{close: true}) // close before anything was added
	}
	for k, i := range order {
		ops = append(ops, op{r: rs[i]})
		if closeEvery > 0 && (k+1)%closeEvery == 0 {
			ops = append(ops, op{close: true})
			if closeEvery == 1 && k%3 == 0 {
				ops = append(ops, op{close: true})
			}
		}
	}
	w.I(len(ops))
	// the text reporter is created once and used after every Close, like `report -every` does
	txt := vegeta.NewTextReporter(&m)
	var txtOut bytes.Buffer
	var gobBuf bytes.Buffer
	genc := vegeta.NewEncoder(&gobBuf)
	for _, o := range ops {
		if o.close {
			w.Z(0)
			m.Close()
			if len(ops) <= 4000 { // the reporter is used again and again only on moderate sequences
				txtOut.Reset()
				txt.Report(&txtOut)
			}
			continue
		}
		r := o.r
		w.Z(1)
		w.Z(int64(r.code)); w.Z(r.ts); w.Z(r.lat); w.U(r.bout); w.U(r.bin); w.I(r.err)
		res := vegeta.Result{Code: r.code, Timestamp: time.Unix(0, r.ts), Latency: time.Duration(r.lat),
			BytesOut: r.bout, BytesIn: r.bin, Error: c10errs[r.err]}
		if cli {
			genc.Encode(&res)
		} else {
			m.Add(&res)
		}
	}
	var buf bytes.Buffer
	var rep c10report
	if cli {
		f := writeTemp(idx, "c10.gob", gobBuf.Bytes())
		defer os.Remove(f)
		out, err := runCLI(nil, "report", "-type", "json", f)
		if err != nil {
			panic(fmt.Sprintf("report command failed on a well-formed gob file: %v", err))
		}
		buf.Write(out)
		tout, _ := runCLI(nil, "report", "-type", "text", f)
		txtOut.Reset()
		txtOut.Write(tout)
	} else {
		m.Close()
		if err := vegeta.NewJSONReporter(&m).Report(&buf); err != nil {
			panic(err)
		}
		txtOut.Reset()
		txt.Report(&txtOut)
	}
	if err := json.Unmarshal(buf.Bytes(), &rep); err != nil {
		panic(err)
	}
	w.U(rep.Requests)
	keys := make([]int, 0, len(rep.StatusCodes))
	for k := range rep.StatusCodes {
		ki, _ := strconv.Atoi(k)
		keys = append(keys, ki)
	}
	sort.Ints(keys)
	w.I(len(keys))
	for _, k := range keys {
		w.I(k)
		w.I(rep.StatusCodes[strconv.Itoa(k)])
	}
	w.U(rep.BytesIn.Total)
	w.U(rep.BytesOut.Total)
	w.Z(rep.Latencies.Total)
	w.Z(rep.Latencies.Max)
	w.Z(rep.Latencies.Min)
	w.OptZ(!rep.Earliest.IsZero(), rep.Earliest.UnixNano())
	w.OptZ(!rep.Latest.IsZero(), rep.Latest.UnixNano())
	w.OptZ(!rep.End.IsZero(), rep.End.UnixNano())
	w.Z(rep.Duration)
	w.Z(rep.Wait)
	w.I(len(rep.Errors))
	for _, e := range rep.Errors {
		id := -1
		for i, s := range c10errs {
			if s == e {
				id = i
			}
		}
		w.I(id)
	}
	w.Z(rep.Latencies.Mean)
	w.F(rep.Rate)
	w.F(rep.Throughput)
	w.F(rep.Success)
	w.F(rep.BytesIn.Mean)
	w.F(rep.BytesOut.Mean)
	// the status-code list of the text report, as printed
	var tcodes [][2]int
	for _, line := range strings.Split(txtOut.String(), "\n") {
		if strings.HasPrefix(line, "Status Codes") {
			for _, f := range strings.Fields(line) {
				if i := strings.IndexByte(f, ':'); i > 0 {
					c, e1 := strconv.Atoi(f[:i])
					n, e2 := strconv.Atoi(f[i+1:])
					if e1 == nil && e2 == nil {
						tcodes = append(tcodes, [2]int{c, n})
					}
				}
			}
		}
	}
	w.I(len(tcodes))
	for _, x := range tcodes {
		w.I(x[0]); w.I(x[1])
	}
	c.Tag = name
	zeroLat := false
	for _, r := range rs {
		if r.lat == 0 {
			zeroLat = true
		}
	}
	if zeroLat {
		c.Tag += ".zerolat"
	}
	if len(rs) >= 2 {
		c.Tag += ";nt"
	}
	c.Dist = fmt.Sprintf("%s/close%d/n%d", name, min(closeEvery, 2), sizeClass(len(rs)))
	c.Sample = map[string]interface{}{"n": len(rs), "order": name, "close_every": closeEvery,
		"report": json.RawMessage(bytes.TrimSpace(clipBytes(buf.Bytes(), 700)))}
	return c
}

func clipBytes(b []byte, n int) []byte {
	if len(b) > n {
		q, _ := json.Marshal(string(b[:n]) + "...")
		return q
	}
	return b
}

func min(a, b int) int {
	if a < b {
		return a
	}
	return b
}

var c10Corpus = [][]c10res{
	nil,
	{{code: 200, ts: 1e18, lat: 0}, {code: 200, ts: 1e18 + 5, lat: 5}}, // Min with a zero latency first
	{{code: 200, ts: 1e18, lat: 7}, {code: 500, ts: 1e18 - 5, lat: 0, err: 2}, {code: 200, ts: 1e18 + 9, lat: 3}},
	{{code: 302, ts: 5, lat: 1000, bin: 10, bout: 3}},
}
