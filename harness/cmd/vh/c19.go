package main

import (
	"bufio"
	"encoding/json"
	"fmt"
	"math/rand"
	"os"
	"os/exec"
	"sort"
	"strings"
	"sync"
)

func init() {
	register("C19", &Prop{ID: 19,
		N: func(tier string) int {
			if tier == "thorough" {
				return 40000
			}
			return 6000
		},
		Run: runC19,
	})
}

type drvResp struct {
	Errs      []string            `json:"errs"`
	Freq      int64               `json:"freq"`
	Per       int64               `json:"per"`
	N         int64               `json:"n"`
	String    string              `json:"string"`
	Map       map[string][]string `json:"map"`
	List      []string            `json:"list"`
	Unlimited bool                `json:"unlimited"`
}

// one driver process per worker goroutine would be wasteful: a single process behind a mutex
var drv struct {
	sync.Mutex
	cmd *exec.Cmd
	in  *bufio.Writer
	out *bufio.Scanner
}

func driver(op string, values ...string) drvResp {
	drv.Lock()
	defer drv.Unlock()
	if drv.cmd == nil {
		cmd := exec.Command(os.Getenv("VERIF_VEGETA"))
		cmd.Env = append(os.Environ(), "VERIF_DRIVER=1")
		stdin, _ := cmd.StdinPipe()
		stdout, _ := cmd.StdoutPipe()
		if err := cmd.Start(); err != nil {
			panic(err)
		}
		drv.cmd, drv.in, drv.out = cmd, bufio.NewWriter(stdin), bufio.NewScanner(stdout)
		drv.out.Buffer(make([]byte, 1<<20), 1<<26)
	}
	req, _ := json.Marshal(map[string]interface{}{"op": op, "values": values})
	drv.in.Write(req)
	drv.in.WriteByte('\n')
	drv.in.Flush()
	if !drv.out.Scan() {
		panic("vegeta verif driver closed the pipe (built without -tags verif?)")
	}
	var r drvResp
	if err := json.Unmarshal(drv.out.Bytes(), &r); err != nil {
		panic(err)
	}
	return r
}

func anyErr(es []string) bool {
	for _, e := range es {
		if e != "" {
			return true
		}
	}
	return false
}

func (w *W) HMap(m map[string][]string) {
	keys := make([]string, 0, len(m))
	for k := range m {
		keys = append(keys, k)
	}
	sort.Strings(keys)
	w.I(len(keys))
	for _, k := range keys {
		w.Str(k)
		w.I(len(m[k]))
		for _, v := range m[k] {
			w.Str(v)
		}
	}
}

var c19Units = []struct {
	s  string
	ns int64
}{{"ns", 1}, {"us", 1e3}, {"µs", 1e3}, {"ms", 1e6}, {"s", 1e9}, {"m", 60e9}, {"h", 3600e9}}

func runC19(idx int, rng *rand.Rand, tier string) []Case {
	if idx%300 == 7 {
		return c19GuardCLI(idx, rng)
	}
	if idx%600 == 11 {
		return c19DNSTTLCLI(idx, rng)
	}
	if idx%600 == 13 {
		return c19ConnectToCLI(idx, rng)
	}
	switch idx % 6 {
	case 0, 1:
		return c19Rate(rng, idx)
	case 2:
		return c19Headers(rng)
	case 3:
		return c19Sizes(rng, idx)
	case 4:
		return c19ConnectTo(rng)
	default:
		return c19Resolvers(rng)
	}
}

func c19RateRaw(v string) Case {
	var c Case
	r := driver("rate", v)
	w := &c.W
	w.Z(1)
	w.Str(v)
	w.Bool(anyErr(r.Errs))
	w.Z(r.Freq); w.Z(r.Per); w.Bool(r.Unlimited)
	w.Str(r.String)
	r2 := driver("rate", r.String)
	w.Bool(anyErr(r2.Errs)); w.Z(r2.Freq); w.Z(r2.Per)
	c.Tag = "rate.raw;nt"
	c.Dist = "rate/raw"
	c.Sample = map[string]interface{}{"flag": "-rate=" + v, "freq": r.Freq, "per": r.Per, "errs": r.Errs, "string": r.String}
	return c
}

func c19Rate(rng *rand.Rand, idx int) []Case {
	var n int64
	switch rng.Intn(5) {
	case 0:
		n = int64(rng.Intn(10))
	case 1:
		n = rng.Int63n(1e6)
	case 2:
		n = rng.Int63n(1e15)
	default:
		n = 1 + int64(rng.Intn(5000))
	}
	u := c19Units[rng.Intn(len(c19Units))]
	mult := int64(1 + rng.Intn(120))
	var v string
	per := int64(1e9)
	special := 0
	switch rng.Intn(8) {
	case 0:
		v = fmt.Sprint(n) // default unit
	case 1:
		v = fmt.Sprintf("%d/%s", n, u.s) // bare unit
		per = u.ns
	case 2:
		v, special = "infinity", 2
	case 3:
		v, special, n = "0", 1, 0
		if rng.Intn(2) == 0 {
			v = "0/" + u.s
		}
	case 4: // malformed
		special = 3
		v = []string{"", "/", "abc", "1.5/s", "10 /s", "ten/s", "5/", "5/xs", "5/1", "0x10/s", "1e3/s", "5//s", " 5/s", "5/1s ", "٣/s", "infinity/s", "Infinity"}[rng.Intn(17)]
	case 5: // compound duration
		u2 := c19Units[rng.Intn(len(c19Units))]
		m2 := int64(rng.Intn(60))
		v = fmt.Sprintf("%d/%d%s%d%s", n, mult, u.s, m2, u2.s)
		per = mult*u.ns + m2*u2.ns
	case 6: // a fraction of a unit, with and without a leading digit (what time.ParseDuration accepts)
		f := []struct {
			s  string
			ns int64
		}{{".5s", 5e8}, {"0.5s", 5e8}, {"1.5s", 15e8}, {".25ms", 25e4}, {".5m", 30e9}, {"2.5h", 9000e9}, {".001s", 1e6}, {"1.5us", 1500}, {".5s500ms", 1e9}}[rng.Intn(9)]
		v = fmt.Sprintf("%d/%s", n, f.s)
		per = f.ns
	default:
		v = fmt.Sprintf("%d/%d%s", n, mult, u.s)
		per = mult * u.ns
	}
	if special == 0 && n == 0 {
		special = 1
	}
	if idx < 12 {
		v, special, n, per = []string{"infinity", "0", "50", "1/s", "3/10ns", "100/ms"}[idx/2%6], []int{2, 1, 0, 0, 0, 0}[idx/2%6], []int64{0, 0, 50, 1, 3, 100}[idx/2%6], []int64{0, 0, 1e9, 1e9, 10, 1e6}[idx/2%6]
	}
	raw := c19RateRaw(v)
	var c Case
	r := driver("rate", v)
	w := &c.W
	w.Z(11)
	w.Z(n); w.Z(per); w.I(special)
	w.Bool(anyErr(r.Errs)); w.Z(r.Freq); w.Z(r.Per); w.Bool(r.Unlimited)
	c.Tag = []string{"rate.nd", "rate.zero", "rate.infinity", "rate.malformed"}[special] + ";nt"
	c.Dist = "rate/" + []string{"N/D", "zero", "infinity", "malformed"}[special]
	c.Sample = map[string]interface{}{"flag": "-rate=" + v, "meant": []int64{n, per}, "stored": []int64{r.Freq, r.Per}, "unlimited_guard": r.Unlimited}
	out := []Case{raw, c}
	if rng.Intn(3) == 0 {
		out = append(out, c19RateSeq(rng))
	}
	return out
}

// the flag given several times: each Set acts on what the previous ones stored
func c19RateSeq(rng *rand.Rand) Case {
	pool := []string{"50/1m", "20", "7/ms", "3", "infinity", "0", "100/2s", "1/h", "x", "5/", "12/500ms", "9/s"}
	n := 2 + rng.Intn(3)
	vals := make([]string, n)
	for i := range vals {
		vals[i] = pool[rng.Intn(len(pool))]
	}
	r := driver("rate", vals...)
	var c Case
	w := &c.W
	w.Z(12)
	w.I(len(vals))
	for _, v := range vals {
		w.Str(v)
	}
	w.I(len(r.Errs))
	for _, e := range r.Errs {
		w.Bool(e != "")
	}
	w.Z(r.Freq); w.Z(r.Per)
	c.Tag = "rate.seq;nt"
	c.Dist = "rate/sequence"
	c.Sample = map[string]interface{}{"flags": vals, "stored": []int64{r.Freq, r.Per}, "errs": r.Errs}
	return c
}

func c19Headers(rng *rand.Rand) []Case {
	keys := []string{"X-Id", "x-id", "Content-Type", "content-type", "ACCEPT", "a", "X_Under", "Host", "host", "HOST", "hOsT", "User-Agent", "user-agent"}
	n := 1 + rng.Intn(8)
	var vals []string
	var pairs [][2]string
	wellformed := true
	for i := 0; i < n; i++ {
		k := keys[rng.Intn(len(keys))]
		v := []string{"1", "text/plain", "a b", "x:y", "été", "v,w", "q=\"1\""}[rng.Intn(7)]
		sp := func() string { return []string{"", " ", "  ", "\t"}[rng.Intn(4)] }
		line := sp() + k + sp() + ":" + sp() + v + sp()
		if rng.Intn(12) == 0 {
			wellformed = false
			line = []string{"novalue", ":", "k:", ":v", " : ", ""}[rng.Intn(6)]
		}
		vals = append(vals, line)
		pairs = append(pairs, [2]string{k, v})
	}
	r := driver("headers", vals...)
	var c Case
	w := &c.W
	w.Z(2)
	w.I(len(vals))
	for _, v := range vals {
		w.Str(v)
	}
	if wellformed {
		w.I(len(pairs))
		for _, p := range pairs {
			w.Str(p[0]); w.Str(p[1])
		}
	} else {
		w.I(0)
	}
	w.I(len(r.Errs))
	for _, e := range r.Errs {
		w.Bool(e != "")
	}
	w.HMap(r.Map)
	c.Tag = "headers;nt"
	c.Dist = fmt.Sprintf("headers/wellformed=%v", wellformed)
	c.Sample = map[string]interface{}{"flags": vals, "map": r.Map}
	return []Case{c}
}

func c19Sizes(rng *rand.Rand, idx int) []Case {
	var out []Case
	{ // -max-body
		units := []struct {
			s  string
			sh uint
		}{{"", 0}, {"B", 0}, {"b", 0}, {"KB", 10}, {"kb", 10}, {"k", 10}, {"MB", 20}, {" MB", 20}, {"m", 20}, {" g", 30}, {"GB", 30}, {"tB", 40}, {" peta", 50}, {" kilobytes", 10}, {" gigabyte", 30}, {"mega", 20}, {"EB", 60}}
		u := units[rng.Intn(len(units))]
		n := int64(rng.Intn(5000))
		if u.sh >= 50 {
			n = int64(rng.Intn(7))
		}
		v := fmt.Sprintf("%d%s", n, u.s)
		expected := n << u.sh
		switch rng.Intn(10) {
		case 0:
			v, expected = "-1", -1
		case 1:
			v, expected = []string{"", "MB", "-2", "1.5MB", "10 Mb", "1 xb", "99999999999999999999", "16EB", "8 EB"}[rng.Intn(9)], -2
		}
		r := driver("maxbody", v)
		var c Case
		c.W.Z(3); c.W.Str(v); c.W.Z(expected); c.W.Bool(anyErr(r.Errs)); c.W.Z(r.N)
		c.Tag = "maxbody;nt"
		c.Dist = "maxbody"
		c.Sample = map[string]interface{}{"flag": "-max-body=" + v, "stored": r.N, "errs": r.Errs}
		out = append(out, c)
	}
	{ // -dns-ttl
		u := c19Units[rng.Intn(len(c19Units))]
		n := int64(rng.Intn(1000))
		v := fmt.Sprintf("%d%s", n, u.s)
		expected := n * u.ns
		switch rng.Intn(8) {
		case 0:
			v, expected = "-1", -1
		case 1:
			v, expected = "0", 0
		case 2:
			v, expected = []string{"", "5", "-", "1d", "s"}[rng.Intn(5)], -2
		}
		r := driver("dnsttl", v)
		var c Case
		c.W.Z(4); c.W.Str(v); c.W.Z(expected); c.W.Bool(anyErr(r.Errs)); c.W.Z(r.N)
		c.Tag = "dnsttl;nt"
		c.Dist = "dnsttl"
		c.Sample = map[string]interface{}{"flag": "-dns-ttl=" + v, "stored": r.N}
		out = append(out, c)
	}
	return out
}

func c19ConnectTo(rng *rand.Rand) []Case {
	hosts := []string{"example.com", "10.0.0.1", "localhost", "a.b", "h", "API.Internal", "Sapo.Invalid", "MiXeD.example.COM"}
	n := 1 + rng.Intn(6)
	var vals []string
	var pairs [][2]string
	wellformed := true
	for i := 0; i < n; i++ {
		src := fmt.Sprintf("%s:%d", hosts[rng.Intn(len(hosts))], 80+rng.Intn(3))
		dst := fmt.Sprintf("%s:%d", hosts[rng.Intn(len(hosts))], 8000+rng.Intn(3))
		v := src + ":" + dst
		if rng.Intn(10) == 0 {
			wellformed = false
			v = []string{"a:1:b", "a:1:b:2:c", "", "[a:1:b:2", "a:1:b]:2", "::::", "[::1]:80:h:1"}[rng.Intn(7)]
		}
		vals = append(vals, v)
		pairs = append(pairs, [2]string{src, dst})
	}
	r := driver("connectto", vals...)
	var c Case
	w := &c.W
	w.Z(5)
	w.I(len(vals))
	for _, v := range vals {
		w.Str(v)
	}
	if wellformed {
		w.I(len(pairs))
		for _, p := range pairs {
			w.Str(p[0]); w.Str(p[1])
		}
	} else {
		w.I(0)
	}
	w.I(len(r.Errs))
	for _, e := range r.Errs {
		w.Bool(e != "")
	}
	w.HMap(r.Map)
	c.Tag = "connectto;nt"
	c.Dist = fmt.Sprintf("connectto/wellformed=%v", wellformed)
	c.Sample = map[string]interface{}{"flags": vals, "map": r.Map}
	return []Case{c}
}

func c19Resolvers(rng *rand.Rand) []Case {
	n := 1 + rng.Intn(4)
	var parts, expected []string
	intent := true
	v6 := false
	for i := 0; i < n; i++ {
		ip := fmt.Sprintf("%d.%d.%d.%d", rng.Intn(256), rng.Intn(256), rng.Intn(256), rng.Intn(256))
		switch rng.Intn(8) {
		case 0:
			p := rng.Intn(65536)
			parts = append(parts, fmt.Sprintf("%s:%d", ip, p))
			expected = append(expected, fmt.Sprintf("%s:%d", ip, p))
		case 1:
			intent = false
			parts = append(parts, []string{"example.com", "1.2.3", "1.2.3.4:99999", "256.1.1.1", "1.2.3.4:", "01.2.3.4", "1.2.3.4:5:6", ""}[rng.Intn(8)])
		case 2:
			intent = false
			v6 = true
			parts = append(parts, []string{"::1", "[::1]:53", "[2001:db8::1]:5353", "[::1]"}[rng.Intn(4)])
		default:
			parts = append(parts, ip)
			expected = append(expected, ip+":53")
		}
	}
	v := strings.Join(parts, ",")
	r := driver("resolvers", v)
	var c Case
	w := &c.W
	w.Z(6)
	w.Str(v)
	w.Bool(intent)
	if intent {
		w.I(len(expected))
		for _, e := range expected {
			w.Str(e)
		}
	} else {
		w.I(0)
	}
	w.Bool(v6)
	w.Bool(anyErr(r.Errs))
	w.I(len(r.List))
	for _, e := range r.List {
		w.Str(e)
	}
	c.Tag = "resolvers;nt"
	c.Dist = fmt.Sprintf("resolvers/intent=%v/v6=%v", intent, v6)
	c.Sample = map[string]interface{}{"flag": "-resolvers=" + v, "normalised": r.List, "errs": r.Errs}
	return []Case{c}
}
