package main

import (
	"strconv"
	"os/exec"
	"path/filepath"
	"sync/atomic"
	"net/http/httptest"
	"strings"
	"bytes"
	"fmt"
	"io"
	"math/rand"
	"net/http"
	"os"
	"reflect"
	"sort"
	"time"

	vegeta "github.com/tsenart/vegeta/v12/lib"
)

func init() {
	register("C07", &Prop{ID: 7, N: func(tier string) int {
		if tier == "thorough" {
			return 12000
		}
		return 1500
	}, Run: runC07})
	register("C08", &Prop{ID: 8, N: func(tier string) int {
		if tier == "thorough" {
			return 6000
		}
		return 900
	}, Run: runC08})
	register("C09", &Prop{ID: 9, N: func(tier string) int {
		if tier == "thorough" {
			return 1500
		}
		return 240
	}, Run: runC09})
}

var c07Texts = []string{"", "x", "a,b", "say \"hi\"", "\"", "\"\"", "line1\nline2", "\n", " lead", "trail ", "\ttab", "ünï©ode ✓", "<a&b>",
	" sep ", "O'Brien", "%", "\\back\\", "\\.", "é nbsp", " lead", "\u0085nel", "a\rb", "\r", "emoji 😀 ok", "comma,\"quote\",\nnl",
	"GET", "http://host/p?q=1&r=<2>", "{\"json\":true}", "1,2,3,4,5,6,7,8,9,10,11,12", "   ", "a　b", "　x"}

var c07Zones = []*time.Location{time.UTC, time.FixedZone("", 3600), time.FixedZone("", -5*3600), time.FixedZone("", 5*3600+1800), time.FixedZone("", -9*3600-1800)}

func genCodecResult(rng *rand.Rand, crlf bool) vegeta.Result {
	pick := func() string { return c07Texts[rng.Intn(len(c07Texts))] }
	big := func() uint64 {
		switch rng.Intn(4) {
		case 0:
			return 0
		case 1:
			return uint64(rng.Intn(1000))
		case 2:
			return ^uint64(0) - uint64(rng.Intn(3))
		}
		return rng.Uint64()
	}
	r := vegeta.Result{
		Attack:   pick(),
		Seq:      big(),
		Code:     uint16(rng.Intn(65536)),
		Latency:  time.Duration(rng.Int63()),
		BytesOut: big(),
		BytesIn:  big(),
		Error:    pick(),
		Method:   pick(),
		URL:      pick(),
	}
	if rng.Intn(4) == 0 {
		r.Latency = -time.Duration(rng.Int63n(1e12))
	}
	if rng.Intn(6) == 0 {
		r.Latency = 0
	}
	// 1970 .. 2200, nanosecond precision, several zones
	r.Timestamp = time.Unix(rng.Int63n(7258118400), int64(rng.Intn(1e9))).In(c07Zones[rng.Intn(len(c07Zones))])
	if rng.Intn(5) == 0 {
		r.Timestamp = time.Unix(rng.Int63n(7258118400), int64(rng.Intn(1000))*1e6).In(time.UTC)
	}
	switch rng.Intn(4) {
	case 0:
	case 1:
		r.Body = []byte{}
	case 2:
		r.Body = []byte(pick())
	default:
		r.Body = make([]byte, rng.Intn(300))
		rng.Read(r.Body)
	}
	switch rng.Intn(4) {
	case 0:
	case 1:
		r.Headers = http.Header{}
	default:
		r.Headers = http.Header{}
		keys := []string{"Content-Type", "X-Multi", "Set-Cookie", "Server", "X-A-B-C", "Etag"}
		n := 1 + rng.Intn(3)
		for i := 0; i < n; i++ {
			k := keys[rng.Intn(len(keys))]
			nv := 1 + rng.Intn(3)
			for j := 0; j < nv; j++ {
				r.Headers[k] = append(r.Headers[k], []string{"text/plain; charset=utf-8", "a", "b c", "x=1; Path=/", "W/\"tag\"", "ü", "1,2", "Basic realm=\"Access: restricted\"", "k: v: w", "http://h:80/p"}[rng.Intn(10)])
			}
		}
	}
	if crlf {
		r.Error = "a\r\nb"
	}
	return r
}

func (w *W) Result(r *vegeta.Result) {
	w.Str(r.Attack); w.U(r.Seq); w.I(int(r.Code)); w.Z(r.Timestamp.UnixNano())
	_, off := r.Timestamp.Zone()
	w.I(off)
	w.Z(int64(r.Latency)); w.U(r.BytesOut); w.U(r.BytesIn); w.Str(r.Error)
	if r.Body != nil {
		w.Z(1); w.Bytes(r.Body)
	} else {
		w.Z(0)
	}
	w.Str(r.Method); w.Str(r.URL)
	if r.Headers != nil {
		w.Z(1); w.Header(r.Headers)
	} else {
		w.Z(0)
	}
}

func (w *W) Results(rs []vegeta.Result) {
	w.I(len(rs))
	for i := range rs {
		w.Result(&rs[i])
	}
}

func decodeAll(dec vegeta.Decoder, max int) ([]vegeta.Result, bool) {
	var out []vegeta.Result
	for i := 0; i <= max+2; i++ {
		var r vegeta.Result
		err := dec.Decode(&r)
		if err == io.EOF {
			return out, true
		}
		if err != nil {
			return out, false
		}
		out = append(out, r)
	}
	return out, false
}

func newDecoder(format string, rd io.Reader) vegeta.Decoder {
	switch format {
	case "gob":
		return vegeta.NewDecoder(rd)
	case "csv":
		return vegeta.NewCSVDecoder(rd)
	}
	return vegeta.NewJSONDecoder(rd)
}

func runC07(idx int, rng *rand.Rand, tier string) []Case {
	n := 1 + rng.Intn(6)
	if rng.Intn(10) == 0 {
		n = 20 + rng.Intn(21)
	}
	crlf := idx%25 == 3
	rs := make([]vegeta.Result, n)
	for i := range rs {
		rs[i] = genCodecResult(rng, crlf && i == 0)
	}
	big := ""
	switch idx % 60 {
	case 11: // a body larger than any line / token buffer (64 KiB) in a middle or first record
		k := rng.Intn(n)
		rs[k].Body = make([]byte, 66000+rng.Intn(90000))
		rng.Read(rs[k].Body)
		big = "body"
	case 37: // a long text
		k := rng.Intn(n)
		rs[k].Error = strings.Repeat(c07Texts[rng.Intn(len(c07Texts))], 1+rng.Intn(4)) + strings.Repeat("x\"y,", 14000+rng.Intn(4000))
		big = "text"
	}
	var c Case
	w := &c.W
	w.Z(1)
	w.Results(rs)
	for _, f := range []string{"csv", "json", "gob"} {
		b := encodeResults(rs, f)
		if f != "gob" {
			w.Bytes(b)
		}
		back, ok := decodeAll(newDecoder(f, bytes.NewReader(b)), n)
		w.Bool(ok)
		w.Results(back)
	}
	// the fields the Result type has now
	t := reflect.TypeOf(vegeta.Result{})
	w.I(t.NumField())
	for i := 0; i < t.NumField(); i++ {
		w.Str(t.Field(i).Name)
	}
	c.Tag = "codec"
	if crlf {
		c.Tag = "csv.crlf"
	}
	c.Tag += ";nt"
	c.Dist = fmt.Sprintf("codec/n%d/crlf=%v", sizeClass(n), crlf)
	if big != "" {
		c.Dist += "/big" + big
	}
	c.Sample = map[string]interface{}{"records": n, "first": fmt.Sprintf("%+v", rs[0])[:min(300, len(fmt.Sprintf("%+v", rs[0])))]}
	return []Case{c}
}

type chunkReader struct {
	b   []byte
	rng *rand.Rand
	fix int
}

func (c *chunkReader) Read(p []byte) (int, error) {
	if len(c.b) == 0 {
		return 0, io.EOF
	}
	n := c.fix
	if n == 0 {
		n = []int{1, 2, 7, 512, 4095, 4096, 4097, 65536}[c.rng.Intn(8)]
	}
	if n > len(p) {
		n = len(p)
	}
	if n > len(c.b) {
		n = len(c.b)
	}
	copy(p, c.b[:n])
	c.b = c.b[n:]
	return n, nil
}

func runC08(idx int, rng *rand.Rand, tier string) []Case {
	formats := []string{"gob", "csv", "json"}
	if idx%25 == 7 {
		// bytes in none of the three encodings, arriving on a pipe: the commands must refuse them
		junk := [][]byte{[]byte("not a result stream\n"), {0xff, 0xfe, 0x00, 0x01}, []byte("1,2,3\n"), []byte("{\"x\":"), []byte("\n\n")}[rng.Intn(5)]
		sub := []string{"encode", "report", "plot"}[rng.Intn(3)]
		out, err := runCLI(junk, sub)
		var c Case
		w := &c.W
		w.Z(3)
		w.Bool(err != nil)
		w.I(len(out))
		c.Tag = "junk.stdin;nt"
		c.Dist = "junk on stdin/" + sub
		c.Sample = map[string]interface{}{"command": sub, "stdin": fmt.Sprintf("%q", junk), "refused": err != nil, "bytes_written": len(out)}
		return []Case{c}
	}
	if idx%5 == 4 {
		// transcoding chain through the real CLI
		n := 1 + rng.Intn(8)
		rs := make([]vegeta.Result, n)
		for i := range rs {
			rs[i] = genCodecResult(rng, false)
		}
		clen := 1 + rng.Intn(4)
		chain := make([]int, clen+1)
		chain[0] = rng.Intn(3)
		cur := writeTemp(idx, "chain0", encodeResults(rs, formats[chain[0]]))
		ok := true
		for i := 1; i <= clen; i++ {
			chain[i] = rng.Intn(3)
			var out []byte
			var err error
			if rng.Intn(2) == 0 {
				out, err = runCLI(nil, "encode", "-to", formats[chain[i]], cur)
			} else {
				// -output into a file that already exists and is longer than what will be written
				dst := writeTemp(idx, fmt.Sprintf("dst%d", i), bytes.Repeat([]byte("stale content of an earlier, longer run\n"), 4000))
				_, err = runCLI(nil, "encode", "-to", formats[chain[i]], "-output", dst, cur)
				out, _ = os.ReadFile(dst)
				os.Remove(dst)
			}
			os.Remove(cur)
			if err != nil {
				ok = false
				break
			}
			cur = writeTemp(idx, fmt.Sprintf("chain%d", i), out)
		}
		var back []vegeta.Result
		if ok {
			b, _ := os.ReadFile(cur)
			os.Remove(cur)
			var eof bool
			back, eof = decodeAll(newDecoder(formats[chain[clen]], bytes.NewReader(b)), n)
			ok = eof
		}
		var c Case
		w := &c.W
		w.Z(2)
		w.I(len(chain))
		for _, x := range chain {
			w.I(x)
		}
		w.Results(rs); w.Bool(ok); w.Results(back)
		c.Tag = "chain;nt"
		c.Dist = fmt.Sprintf("chain/len%d", clen)
		c.Sample = map[string]interface{}{"chain": chain, "records": n}
		return []Case{c}
	}
	var c Case
	w := &c.W
	w.Z(1)
	if idx%9 == 8 {
		// input in none of the formats
		junk := [][]byte{nil, []byte("\n"), []byte("hello world\n"), {0xff, 0xfe, 0x00}, []byte("1,2,3\n"), []byte("{\"attack\":"), []byte("[1,2]\n"), make([]byte, 1+rng.Intn(50))}[rng.Intn(8)]
		if len(junk) > 4 && junk[0] == 0 {
			rng.Read(junk)
		}
		dec := vegeta.DecoderFor(&chunkReader{b: append([]byte(nil), junk...), rng: rng})
		w.Z(3); w.Results(nil); w.Bool(dec != nil); w.Bool(false); w.Results(nil)
		c.Tag = "none;nt"
		c.Dist = "none"
		c.Sample = map[string]interface{}{"input": fmt.Sprintf("%q", junk), "decoder": dec != nil}
		return []Case{c}
	}
	f := rng.Intn(3)
	n := 1 + rng.Intn(10)
	rs := make([]vegeta.Result, n)
	for i := range rs {
		rs[i] = genCodecResult(rng, false)
		if rng.Intn(6) == 0 { // larger than the I/O buffers
			rs[i].Body = make([]byte, []int{4096, 5000, 70000}[rng.Intn(3)])
			rng.Read(rs[i].Body)
		}
	}
	if rng.Intn(3) == 0 { // first record different from the rest
		rs[0].Headers, rs[0].Body, rs[0].Error = nil, nil, ""
	}
	if rng.Intn(5) == 0 { // a hit that failed before it had a target: no method, no URL
		rs[0].Method, rs[0].URL, rs[0].Code, rs[0].Error = "", "", 0, "no targets to attack"
	}
	if idx%20 == 6 { // a first record far larger than any sniffing buffer
		rs[0].Body = make([]byte, 140000+rng.Intn(80000))
		rng.Read(rs[0].Body)
	}
	b := encodeResults(rs, formats[f])
	cr := &chunkReader{b: b, rng: rng}
	if rng.Intn(3) == 0 {
		cr.fix = []int{1, 2, 7, 4097}[rng.Intn(4)]
		if cr.fix == 1 && len(b) > 20000 {
			cr.fix = 7
		}
	}
	dec := vegeta.DecoderFor(cr)
	var back []vegeta.Result
	ok := false
	if dec != nil {
		back, ok = decodeAll(dec, n)
	}
	w.I(f); w.Results(rs); w.Bool(dec != nil); w.Bool(ok); w.Results(back)
	c.Tag = "detect." + formats[f] + ";nt"
	c.Dist = fmt.Sprintf("detect/%s/n%d/bytes%d/chunk%d", formats[f], sizeClass(n), sizeClass(len(b)), cr.fix)
	c.Sample = map[string]interface{}{"format": formats[f], "records": n, "bytes": len(b), "chunk": cr.fix}
	return []Case{c}
}

type offsetWriter struct {
	buf    bytes.Buffer
	writes int
}

func (o *offsetWriter) Write(p []byte) (int, error) { o.writes++; return o.buf.Write(p) }

// the attack command itself: results that completed must be in the output when the writer is killed
func runC09Attack(idx int, rng *rand.Rand) []Case {
	var done, arrived int64
	slowFirst := rng.Intn(2) == 0 // the first request hangs: later ones complete before it
	srv := httptest.NewServer(http.HandlerFunc(func(w http.ResponseWriter, r *http.Request) {
		if atomic.AddInt64(&arrived, 1) == 1 && slowFirst {
			select {
			case <-r.Context().Done():
			case <-time.After(8 * time.Second):
			}
			return
		}
		w.Write([]byte("ok"))
		atomic.AddInt64(&done, 1)
	}))
	defer srv.Close()
	out := filepath.Join(scratchDir(), fmt.Sprintf("c09attack%d.bin", idx))
	defer os.Remove(out)
	if rng.Intn(2) == 0 {
		// the output file exists already and holds a longer, older stream: none of it may survive
		old := make([]vegeta.Result, 600)
		for i := range old {
			old[i] = vegeta.Result{Attack: "old", Seq: uint64(i), Code: 200, Method: "GET", URL: "http://stale.invalid/", Timestamp: time.Unix(1500000000, 0)}
		}
		os.WriteFile(out, encodeResults(old, "gob"), 0o644)
	}
	rate := []int{10, 20, 35}[rng.Intn(3)]
	cmd := exec.Command(os.Getenv("VERIF_VEGETA"), "attack", "-rate", strconv.Itoa(rate), "-duration", "20s", "-output", out)
	cmd.Stdin = strings.NewReader("GET " + srv.URL + "/\n")
	if err := cmd.Start(); err != nil {
		panic(err)
	}
	time.Sleep(time.Duration(700+rng.Intn(600)) * time.Millisecond)
	completed := atomic.LoadInt64(&done) // responses fully served by now
	time.Sleep(1200 * time.Millisecond)  // ample time for the client side to record them, also on a loaded machine
	cmd.Process.Kill()
	cmd.Wait()
	b, _ := os.ReadFile(out)
	back, _ := decodeAll(vegeta.NewDecoder(bytes.NewReader(b)), 1<<20)
	// results are written in completion order: every record must be a whole, genuine one (its own
	// sequence number, the status and URL of this attack), none twice
	clean := !bytes.Contains(b, []byte("stale.invalid")) // nothing of an older stream in the file
	seen := map[uint64]bool{}
	for i := range back {
		if seen[back[i].Seq] || back[i].Code != 200 || back[i].URL != srv.URL+"/" || back[i].Method != "GET" {
			clean = false
		}
		seen[back[i].Seq] = true
	}
	var c Case
	w := &c.W
	w.Z(2)
	w.Z(completed)
	w.I(len(back))
	w.Bool(clean)
	c.Tag = "attack.kill;nt"
	c.Dist = "attack killed while writing"
	c.Sample = map[string]interface{}{"rate": rate, "first_request_hangs": slowFirst, "completed_before_kill": completed, "records_in_file": len(back), "bytes": len(b)}
	return []Case{c}
}

func runC09(idx int, rng *rand.Rand, tier string) []Case {
	if idx%40 == 13 {
		return runC09Attack(idx, rng)
	}
	formats := []string{"gob", "csv", "json"}
	f := idx % 3
	n := 1 + rng.Intn(12)
	rs := make([]vegeta.Result, n)
	maxBody := 2000
	if tier == "thorough" {
		maxBody = 20000
	}
	for i := range rs {
		rs[i] = genCodecResult(rng, false)
		if rng.Intn(5) == 0 {
			rs[i].Body = make([]byte, rng.Intn(maxBody))
			rng.Read(rs[i].Body)
		}
	}
	if (idx%30 == 5 || idx%30 == 6 || idx%30 == 7) && n > 1 { // a record larger than 64 KiB in the middle of the stream (json, gob, csv)
		k := rng.Intn(n - 1)
		rs[k].Body = make([]byte, 60000+rng.Intn(30000))
		rng.Read(rs[k].Body)
	}
	ow := &offsetWriter{}
	var enc vegeta.Encoder
	switch f {
	case 0:
		enc = vegeta.NewEncoder(ow)
	case 1:
		enc = vegeta.NewCSVEncoder(ow)
	default:
		enc = vegeta.NewJSONEncoder(ow)
	}
	// a result the JSON encoder refuses (a year beyond 9999 cannot be written as RFC 3339) in the middle
	// of the stream: a refused Encode call writes no record, and whatever later calls accept must again
	// be whole records - the stream stays the sequence of the results whose Encode returned nil
	refusedAt := -1
	if f == 2 && (idx%30 == 8 || idx%30 == 20) && n > 2 {
		refusedAt = 1 + rng.Intn(n-2)
		rs[refusedAt].Timestamp = time.Date(10000+rng.Intn(300), 3, 1, 12, 0, 0, 0, time.UTC)
	}
	var offs []int64
	var written []vegeta.Result
	for i := range rs {
		if err := enc.Encode(&rs[i]); err != nil {
			if refusedAt < 0 || i < refusedAt {
				panic(err)
			}
			continue
		}
		written = append(written, rs[i])
		offs = append(offs, int64(ow.buf.Len()))
	}
	rs, n = written, len(written)
	b := ow.buf.Bytes()
	// every Encode call must leave a stream that is a whole number of records: checked by the cuts at the offsets
	var c Case
	w := &c.W
	w.Z(1)
	w.I(f)
	w.Bytes(b)
	w.Zs(offs)
	var cuts [][3]int64
	try := func(k int) {
		back, _ := decodeAll(newDecoder(formats[f], bytes.NewReader(b[:k])), n)
		eq := len(back) <= n
		for i := range back {
			if i < n && !back[i].Equal(rs[i]) {
				eq = false
			}
		}
		e := int64(0)
		if eq {
			e = 1
		}
		cuts = append(cuts, [3]int64{int64(k), int64(len(back)), e})
	}
	if f == 1 {
		try(0)
		for _, o := range offs {
			try(int(o))
		}
	} else {
		step := 1
		if len(b) > 6000 && (tier != "thorough" || len(b) > 60000) {
			step = 1 + len(b)/6000 // long streams: a stride plus every record boundary and its neighbours
		}
		for k := 0; k <= len(b); k += step {
			try(k)
		}
		for _, o := range offs {
			for d := -2; d <= 2; d++ {
				if k := int(o) + d; k >= 0 && k <= len(b) {
					try(k)
				}
			}
		}
	}
	// the same cuts read the way the report/encode/plot commands read a file: format detection
	// first (a stream the detector refuses yields no records), and through the encode command itself
	same := func(back []vegeta.Result) int64 {
		if len(back) > n {
			return 0
		}
		for i := range back {
			if !back[i].Equal(rs[i]) {
				return 0
			}
		}
		return 1
	}
	nAuto, nCLI := 0, 0
	if f != 1 {
		var ks []int
		for i := 0; i < 6; i++ {
			ks = append(ks, rng.Intn(len(b)+1))
		}
		for _, o := range offs {
			ks = append(ks, int(o), int(o)-1, int(o)+1+rng.Intn(8))
		}
		for _, k := range ks {
			if k < int(offs[0]) || k > len(b) {
				continue // before the first whole record there is nothing to detect the format by
			}
			var back []vegeta.Result
			if dec := vegeta.DecoderFor(bytes.NewReader(b[:k])); dec != nil {
				back, _ = decodeAll(dec, n)
			}
			cuts = append(cuts, [3]int64{int64(k), int64(len(back)), same(back)})
			nAuto++
		}
		if idx%8 == 3 {
			for i := 0; i < 3; i++ {
				k := int(offs[0]) + rng.Intn(len(b)-int(offs[0])+1)
				cmd := exec.Command(os.Getenv("VERIF_VEGETA"), "encode", "-to", "json")
				cmd.Stdin = bytes.NewReader(b[:k])
				var outb bytes.Buffer
				cmd.Stdout = &outb
				cmd.Run() // a torn tail makes the command fail after the whole records: only what it wrote counts
				back, _ := decodeAll(vegeta.NewJSONDecoder(bytes.NewReader(outb.Bytes())), n)
				if tail := outb.Bytes(); len(tail) > 0 && tail[len(tail)-1] != '\n' {
					back = append(back, vegeta.Result{}) // a torn line in the output counts as a record that was never written
				}
				cuts = append(cuts, [3]int64{int64(k), int64(len(back)), same(back)})
				nCLI++
			}
		}
	}
	sort.SliceStable(cuts, func(i, j int) bool { return cuts[i][0] < cuts[j][0] })
	w.I(len(cuts))
	for _, x := range cuts {
		w.Z(x[0]); w.Z(x[1]); w.Z(x[2])
	}
	w.Bool(true)
	c.Tag = "cut." + formats[f] + ";nt"
	c.Dist = fmt.Sprintf("cut/%s/n%d/bytes%d", formats[f], sizeClass(n), sizeClass(len(b)))
	c.Sample = map[string]interface{}{"format": formats[f], "records": n, "bytes": len(b), "cuts": len(cuts), "of_them_through_format_detection": nAuto, "of_them_through_the_encode_command": nCLI, "boundaries": offs}
	return []Case{c}
}
