package sync

import (
	"bytes"
	"fmt"
	"io"
	"math/rand"
	"net/http"
	"net/http/httptest"
	"os"
	"os/exec"
	"path/filepath"
	"sync/atomic"
	"syscall"
	"time"

	vegeta "github.com/tsenart/vegeta/v12/lib"
)

// cliSignalCase runs the real attack command against a local server, interrupts it once and
// waits for it to end by itself: the command must finish the hits in flight, write exactly one
// result per started hit (sequence numbers 0..n-1) and exit with status 0.
// Wire: "<prop> <id> cli.signal;nt 0 <served> <results> <seqs_ok> <exit_ok> <in_time>"
func cliSignalCase(prop string, idx int, seed int64) (string, bool) {
	bin := os.Getenv("VERIF_VEGETA")
	if bin == "" {
		return "", false
	}
	if _, err := os.Stat(bin); err != nil {
		return "", false
	}
	rng := rand.New(rand.NewSource(seed*7919 + int64(idx)))
	var served int64
	delay := time.Duration(20+rng.Intn(150)) * time.Millisecond
	srv := httptest.NewServer(http.HandlerFunc(func(w http.ResponseWriter, r *http.Request) {
		atomic.AddInt64(&served, 1)
		time.Sleep(delay)
		w.Write([]byte("ok"))
	}))
	defer srv.Close()
	out := filepath.Join(os.Getenv("VERIF_SCRATCH"), fmt.Sprintf("c02cli%d.bin", idx))
	defer os.Remove(out)
	rate := []int{20, 50, 120}[rng.Intn(3)]
	cmd := exec.Command(bin, "attack", "-rate", fmt.Sprint(rate), "-duration", "60s", "-output", out)
	cmd.Stdin = bytes.NewReader([]byte("GET " + srv.URL + "/\n"))
	if err := cmd.Start(); err != nil {
		return "", false
	}
	time.Sleep(time.Duration(300+rng.Intn(500)) * time.Millisecond)
	cmd.Process.Signal(syscall.SIGINT)
	done := make(chan error, 1)
	go func() { done <- cmd.Wait() }()
	exitOK, inTime := false, false
	select {
	case err := <-done:
		inTime = true
		exitOK = err == nil
	case <-time.After(30 * time.Second):
		cmd.Process.Kill()
		<-done
	}
	b, _ := os.ReadFile(out)
	dec := vegeta.NewDecoder(bytes.NewReader(b))
	seen := map[uint64]bool{}
	n, seqsOK := 0, true
	for {
		var r vegeta.Result
		if err := dec.Decode(&r); err != nil {
			if err != io.EOF {
				seqsOK = false
			}
			break
		}
		if seen[r.Seq] {
			seqsOK = false
		}
		seen[r.Seq] = true
		n++
	}
	for i := 0; i < n; i++ {
		if !seen[uint64(i)] {
			seqsOK = false
		}
	}
	bz := func(x bool) int {
		if x {
			return 1
		}
		return 0
	}
	return fmt.Sprintf("%s cli%d.0 cli.signal;nt 0 %d %d %d %d %d", prop, idx, atomic.LoadInt64(&served), n, bz(seqsOK), bz(exitOK), bz(inTime)), true
}


// cliSignalTwice: two of the first requests never complete.  After a first interrupt the command
// has to wait for them (their results are still owed); a second interrupt finds the stop already
// initiated (Stop reports false) and ends the command at once, with status 0.
// Wire: "<prop> <id> cli.signal2;nt -1 <hung> <results> <dup_free> <exit_ok> <alive_after_first> <in_time>"
func cliSignalTwice(prop string, idx int, seed int64) (string, bool) {
	bin := os.Getenv("VERIF_VEGETA")
	if bin == "" {
		return "", false
	}
	if _, err := os.Stat(bin); err != nil {
		return "", false
	}
	rng := rand.New(rand.NewSource(seed*104729 + int64(idx)))
	var arrived, hung int64
	release := make(chan struct{})
	nhang := int64(1 + rng.Intn(3))
	srv := httptest.NewServer(http.HandlerFunc(func(w http.ResponseWriter, r *http.Request) {
		if atomic.AddInt64(&arrived, 1) <= nhang {
			atomic.AddInt64(&hung, 1)
			select {
			case <-release:
			case <-r.Context().Done():
			}
			return
		}
		w.Write([]byte("ok"))
	}))
	defer srv.Close()
	defer close(release)
	out := filepath.Join(os.Getenv("VERIF_SCRATCH"), fmt.Sprintf("c02cli2_%d.bin", idx))
	defer os.Remove(out)
	rate := []int{20, 50, 120}[rng.Intn(3)]
	cmd := exec.Command(bin, "attack", "-rate", fmt.Sprint(rate), "-duration", "60s", "-timeout", "40s", "-output", out)
	cmd.Stdin = bytes.NewReader([]byte("GET " + srv.URL + "/\n"))
	if err := cmd.Start(); err != nil {
		return "", false
	}
	done := make(chan error, 1)
	go func() { done <- cmd.Wait() }()
	time.Sleep(time.Duration(400+rng.Intn(400)) * time.Millisecond)
	cmd.Process.Signal(syscall.SIGINT)
	alive := true
	var werr error
	select {
	case werr = <-done:
		alive = false
	case <-time.After(time.Duration(800+rng.Intn(700)) * time.Millisecond):
	}
	exitOK, inTime := false, false
	if alive {
		cmd.Process.Signal(syscall.SIGINT)
		select {
		case werr = <-done:
			inTime = true
		case <-time.After(10 * time.Second):
			cmd.Process.Kill()
			werr = <-done
		}
	}
	exitOK = werr == nil
	b, _ := os.ReadFile(out)
	dec := vegeta.NewDecoder(bytes.NewReader(b))
	seen := map[uint64]bool{}
	n, dupFree := 0, true
	for {
		var r vegeta.Result
		if err := dec.Decode(&r); err != nil {
			break
		}
		if seen[r.Seq] {
			dupFree = false
		}
		seen[r.Seq] = true
		n++
	}
	bz := func(x bool) int {
		if x {
			return 1
		}
		return 0
	}
	return fmt.Sprintf("%s cli2_%d.0 cli.signal2;nt -1 %d %d %d %d %d %d", prop, idx, atomic.LoadInt64(&hung), n, bz(dupFree), bz(exitOK), bz(alive), bz(inTime)), true
}
