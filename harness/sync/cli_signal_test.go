package sync

import (
	"bytes"
	"fmt"
	"io"
	"math/rand"
	"net/http"
	"net/http/httptest"
	"os"
	"os/exec"
	"path/filepath"
	"sync/atomic"
	"syscall"
	"time"

	vegeta "github.com/tsenart/vegeta/v12/lib"
)

// cliSignalCase runs the real attack command against a local server, interrupts it once and
// waits for it to end by itself: the command must finish the hits in flight, write exactly one
// result per started hit (sequence numbers 0..n-1) and exit with status 0.
// Wire: "<prop> <id> cli.signal;nt 0 <served> <results> <seqs_ok> <exit_ok> <in_time>"
func cliSignalCase(prop string, idx int, seed int64) (string, bool) {
	bin := os.Getenv("VERIF_VEGETA")
	if bin == "" {
		return "", false
	}
	if _, err := os.Stat(bin); err != nil {
		return "", false
	}
	rng := rand.New(rand.NewSource(seed*7919 + int64(idx)))
	var served int64
	delay := time.Duration(20+rng.Intn(150)) * time.Millisecond
	srv := httptest.NewServer(http.HandlerFunc(func(w http.ResponseWriter, r *http.Request) {
		atomic.AddInt64(&served, 1)
		time.Sleep(delay)
		w.Write([]byte("ok"))
	}))
	defer srv.Close()
	out := filepath.Join(os.Getenv("VERIF_SCRATCH"), fmt.Sprintf("c02cli%d.bin", idx))
	defer os.Remove(out)
	rate := []int{20, 50, 120}[rng.Intn(3)]
	cmd := exec.Command(bin, "attack", "-rate", fmt.Sprint(rate), "-duration", "60s", "-output", out)
	cmd.Stdin = bytes.NewReader([]byte("GET " + srv.URL + "/\n"))
	if err := cmd.Start(); err != nil {
		return "", false
	}
	time.Sleep(time.Duration(300+rng.Intn(500)) * time.Millisecond)
	cmd.Process.Signal(syscall.SIGINT)
	done := make(chan error, 1)
	go func() { done <- cmd.Wait() }()
	exitOK, inTime := false, false
	select {
	case err := <-done:
		inTime = true
		exitOK = err == nil
	case <-time.After(30 * time.Second):
		cmd.Process.Kill()
		<-done
	}
	b, _ := os.ReadFile(out)
	dec := vegeta.NewDecoder(bytes.NewReader(b))
	seen := map[uint64]bool{}
	n, seqsOK := 0, true
	for {
		var r vegeta.Result
		if err := dec.Decode(&r); err != nil {
			if err != io.EOF {
				seqsOK = false
			}
			break
		}
		if seen[r.Seq] {
			seqsOK = false
		}
		seen[r.Seq] = true
		n++
	}
	for i := 0; i < n; i++ {
		if !seen[uint64(i)] {
			seqsOK = false
		}
	}
	bz := func(x bool) int {
		if x {
			return 1
		}
		return 0
	}
	return fmt.Sprintf("%s cli%d.0 cli.signal;nt 0 %d %d %d %d %d", prop, idx, atomic.LoadInt64(&served), n, bz(seqsOK), bz(exitOK), bz(inTime)), true
}
