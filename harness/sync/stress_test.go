package sync

import (
	"fmt"
	"os"
	"os/exec"
	"net/http"
	"net/http/httptest"
	"runtime"
	"strings"
	"sync"
	"sync/atomic"
	"time"

	vegeta "github.com/tsenart/vegeta/v12/lib"
)

// stopStress: real goroutines on the real scheduler call Stop on one Attacker at the same moment,
// many rounds; the number of calls that report having initiated the stop is recorded per round.
// This is the search for a concrete history when the once-flag obligation of Stop no longer holds.
// Wire: "<prop> stress<i>.0 stop.stress;nt -2 <callers> <rounds> <rounds with != 1 initiators> <max initiators> <late initiators>"
func stopStress(prop string, idx int, rounds int) string {
	callers := 2 * runtime.GOMAXPROCS(0)
	if callers < 4 {
		callers = 4
	}
	bad, maxTrue, late := 0, int64(0), 0
	for round := 0; round < rounds; round++ {
		a := vegeta.NewAttacker()
		var trues int64
		var ready, done sync.WaitGroup
		start := make(chan struct{})
		for i := 0; i < callers; i++ {
			ready.Add(1)
			done.Add(1)
			go func() {
				defer done.Done()
				ready.Done()
				<-start
				if a.Stop() {
					atomic.AddInt64(&trues, 1)
				}
			}()
		}
		ready.Wait()
		close(start)
		done.Wait()
		n := atomic.LoadInt64(&trues)
		if n != 1 {
			bad++
		}
		if n > maxTrue {
			maxTrue = n
		}
		if a.Stop() {
			late++
		}
	}
	return fmt.Sprintf("%s stress%d.0 stop.stress;nt -2 %d %d %d %d %d", prop, idx, callers, rounds, bad, maxTrue, late)
}

// vegetaGoroutines counts the goroutines that are executing code of the vegeta library
func vegetaGoroutines() int {
	buf := make([]byte, 1<<20)
	for {
		n := runtime.Stack(buf, true)
		if n < len(buf) {
			buf = buf[:n]
			break
		}
		buf = make([]byte, 2*len(buf))
	}
	// a goroutine counts when the function it is executing (first frame) lives in a file of the
	// library; closures may be named after the caller they were inlined into, file names are not
	repo := os.Getenv("VERIF_REPO")
	if repo == "" {
		repo = "/repo"
	}
	cnt := 0
	for _, g := range strings.Split(string(buf), "\n\n") {
		lines := strings.Split(g, "\n")
		if len(lines) >= 3 && strings.HasPrefix(strings.TrimSpace(lines[2]), repo+"/lib/") {
			cnt++
		}
	}
	return cnt
}

// optionLeak: a real attack of an Attacker built with options that start helper goroutines (DNS
// caching with a refresh period) ends on its own - duration over, pacer stop or targeter exhausted -
// and nothing of the library may keep running afterwards.
// Wire: "<prop> optleak<i>.0 opt.leak;nt -3 <how> <results> <goroutines of the library still running>"
func optionLeak(prop string, idx int, seed int64) string {
	srv := httptest.NewServer(http.HandlerFunc(func(w http.ResponseWriter, r *http.Request) { w.Write([]byte("ok")) }))
	defer srv.Close()
	how := int((seed + int64(idx)) % 3)
	ttl := []time.Duration{20 * time.Millisecond, 5 * time.Second, time.Hour}[idx%3]
	before := vegetaGoroutines()
	atk := vegeta.NewAttacker(vegeta.DNSCaching(ttl), vegeta.Workers(2), vegeta.Timeout(2*time.Second))
	var tr vegeta.Targeter = vegeta.NewStaticTargeter(vegeta.Target{Method: "GET", URL: srv.URL})
	var pacer vegeta.Pacer = vegeta.Rate{Freq: 200, Per: time.Second}
	du := time.Duration(0)
	switch how {
	case 0: // the duration elapses
		du = 60 * time.Millisecond
	case 1: // the pacer says stop
		pacer = stopAfter(8)
	default: // the targeter fails
		n := int64(0)
		inner := tr
		tr = func(t *vegeta.Target) error {
			if atomic.AddInt64(&n, 1) > 8 {
				return vegeta.ErrNoTargets
			}
			return inner(t)
		}
	}
	results := 0
	for range atk.Attack(tr, pacer, du, "leak") {
		results++
	}
	// idle keep-alive connections belong to net/http, not to the library; what is counted is code of the library
	left := 0
	for i := 0; i < 40; i++ {
		if left = vegetaGoroutines() - before; left <= 0 {
			left = 0
			break
		}
		time.Sleep(25 * time.Millisecond)
	}
	atk.Stop()
	return fmt.Sprintf("%s optleak%d.0 opt.leak;nt -3 %d %d %d", prop, idx, how, results, left)
}


type stopAfter uint64

func (s stopAfter) Pace(el time.Duration, hits uint64) (time.Duration, bool) {
	if hits >= uint64(s) {
		return 0, true
	}
	return time.Millisecond, false
}
func (s stopAfter) Rate(time.Duration) float64 { return 1000 }

// cliWorkers: the attack command against four slow hosts with -workers=1 -max-workers=N and
// optionally -max-connections (a per-host limit of the transport, not a limit on workers): the
// number of requests in flight at the hosts must reach N (grow on demand) and never exceed it.
// Wire: "<prop> cliw<i>.0 cli.workers;nt -4 <max-workers> <max-connections or 0> <hosts> <peak in flight> <requests>"
func cliWorkers(prop string, idx int, seed int64) (string, bool) {
	bin := os.Getenv("VERIF_VEGETA")
	if bin == "" {
		return "", false
	}
	if _, err := os.Stat(bin); err != nil {
		return "", false
	}
	var cur, peak, total int64
	h := http.HandlerFunc(func(w http.ResponseWriter, r *http.Request) {
		n := atomic.AddInt64(&cur, 1)
		atomic.AddInt64(&total, 1)
		for {
			p := atomic.LoadInt64(&peak)
			if n <= p || atomic.CompareAndSwapInt64(&peak, p, n) {
				break
			}
		}
		time.Sleep(300 * time.Millisecond)
		atomic.AddInt64(&cur, -1)
		w.Write([]byte("ok"))
	})
	var targets strings.Builder
	var srvs []*httptest.Server
	for i := 0; i < 4; i++ {
		s := httptest.NewServer(h)
		srvs = append(srvs, s)
		fmt.Fprintf(&targets, "GET %s/\n", s.URL)
	}
	defer func() {
		for _, s := range srvs {
			s.Close()
		}
	}()
	maxw := []int{3, 4}[(int(seed)+idx)%2]
	conns := []int{0, 1, 2}[idx%3]
	args := []string{"attack", "-rate", "50", "-duration", "1200ms", "-timeout", "5s", "-workers", "1", "-max-workers", fmt.Sprint(maxw), "-output", os.DevNull}
	if conns > 0 {
		args = append(args, "-max-connections", fmt.Sprint(conns))
	}
	cmd := exec.Command(bin, args...)
	cmd.Stdin = strings.NewReader(targets.String())
	if err := cmd.Run(); err != nil {
		return "", false
	}
	return fmt.Sprintf("%s cliw%d.0 cli.workers;nt -4 %d %d 4 %d %d", prop, idx, maxw, conns, atomic.LoadInt64(&peak), atomic.LoadInt64(&total)), true
}

// preStop: Stop is called before Attack on the same Attacker.  The stop is not forgotten: the
// attack (no duration, a pacer that never stops) ends by itself, and a later Stop call finds the
// stop already initiated.
// Wire: "<prop> prestop<i>.0 stop.before;nt -5 <first Stop returned> <ended within 3 s> <later Stop returned> <results>"
func preStop(prop string, idx int) string {
	srv := httptest.NewServer(http.HandlerFunc(func(w http.ResponseWriter, r *http.Request) { w.Write([]byte("ok")) }))
	defer srv.Close()
	atk := vegeta.NewAttacker(vegeta.Workers(uint64(1+idx%3)), vegeta.Timeout(2*time.Second))
	first := atk.Stop()
	res := atk.Attack(vegeta.NewStaticTargeter(vegeta.Target{Method: "GET", URL: srv.URL}), vegeta.Rate{Freq: 200, Per: time.Second}, 0, "prestop")
	n := 0
	ended := false
	deadline := time.After(3 * time.Second)
loop:
	for {
		select {
		case _, ok := <-res:
			if !ok {
				ended = true
				break loop
			}
			n++
		case <-deadline:
			break loop
		}
	}
	later := atk.Stop()
	if !ended {
		for range res { // let it finish now that it has (wrongly) been stopped again
		}
	}
	bz := func(x bool) int {
		if x {
			return 1
		}
		return 0
	}
	return fmt.Sprintf("%s prestop%d.0 stop.before;nt -5 %d %d %d %d", prop, idx, bz(first), bz(ended), bz(later), n)
}
