// Package sync drives real vegeta attacks under testing/synctest (virtual time, quiescence
// detection) by scripted environment actions and records, after every action, what is
// observable.  Built as a test binary with go1.26.8; run by bin/check for C02, C03, C04.
package sync

import (
	"math"
	"bufio"
	"encoding/json"
	"errors"
	"fmt"
	"io"
	"math/rand"
	"net/http"
	"os"
	"sort"
	"strconv"
	"strings"
	stdsync "sync"
	"sync/atomic"
	"testing"
	"testing/synctest"
	"time"

	vegeta "github.com/tsenart/vegeta/v12/lib"
)

type entry struct {
	seq int64
	at  int64
	rel chan struct{}
}

type world struct {
	mu      stdsync.Mutex
	start   time.Time
	entries []*entry
	calls   int64
	pending bool
	pe, ph  int64
	answer  chan [2]int64 // wait, stop
	tcalls  int64
	tfails  int64
	fails   map[int64]bool
}

func (w *world) RoundTrip(req *http.Request) (*http.Response, error) {
	seq, _ := strconv.ParseInt(req.Header.Get("X-Vegeta-Seq"), 10, 64)
	e := &entry{seq: seq, at: int64(time.Since(w.start)), rel: make(chan struct{})}
	w.mu.Lock()
	w.entries = append(w.entries, e)
	w.mu.Unlock()
	<-e.rel
	if seq%3 == 1 {
		return nil, io.EOF // the server closed the connection without answering
	}
	return &http.Response{StatusCode: 200, Status: "200 OK", Body: io.NopCloser(strings.NewReader("")), Request: req,
		Proto: "HTTP/1.1", ProtoMajor: 1, ProtoMinor: 1, Header: http.Header{}}, nil
}

func (w *world) Pace(elapsed time.Duration, hits uint64) (time.Duration, bool) {
	w.mu.Lock()
	w.calls++
	w.pending, w.pe, w.ph = true, int64(elapsed), int64(hits)
	w.mu.Unlock()
	a := <-w.answer
	return time.Duration(a[0]), a[1] != 0
}
func (w *world) Rate(time.Duration) float64 { return 0 }

func (w *world) target(t *vegeta.Target) error {
	i := atomic.AddInt64(&w.tcalls, 1) - 1
	if w.fails[i] {
		atomic.AddInt64(&w.tfails, 1)
		return errors.New("scripted targeter failure")
	}
	t.Method, t.URL = "GET", "http://scripted.example/"
	return nil
}

type step struct {
	kind, a, b int64 // 1 pace(w, stop) 2 advance(d) 3 complete(seq) 4 consume 5 stop 0 none
	// snapshot
	now, npaces      int64
	pending          bool
	pe, ph           int64
	entries          [][2]int64
	cons, consSeq    int64
	stop             bool
	tfails           int64
}

type script struct {
	maxw, initw uint64
	du          int64
	fails       []int64
	ops         []int // abstract operations, see runScript
}

type outcome struct {
	steps                          []step
	leak, panicked, ended, lateStop, aliased bool
}

// abstract operations
const (
	opTick0 = iota // answer the pending consultation with wait 0
	opTickW        // answer with wait 5ms and let the time pass
	opPaceStop
	opCompleteOld
	opCompleteNew
	opConsume
	opStop
	opAdvance // 3ms
	opTickNeg // answer with a negative wait
	opTickLong // answer with wait 7ms and advance only 4ms
	opTickShort // answer with a wait below a millisecond (300us) and let it pass
	nOps
	// not drawn at random with the others (everything after it is dead until the end of the script):
	// answer with the largest wait there is ("wait forever") and let 50ms pass; no hit may start
	opTickHuge = nOps
)

func runScript(t *testing.T, sc script) (out outcome) {
	defer func() {
		if r := recover(); r != nil {
			out.panicked = true
			if os.Getenv("VH_DEBUG") != "" {
				fmt.Fprintln(os.Stderr, "panic:", r)
			}
			if s := fmt.Sprint(r); strings.Contains(s, "deadlock") || strings.Contains(s, "blocked goroutines") {
				out.panicked, out.leak = false, true
			}
		}
	}()
	synctest.Test(t, func(t *testing.T) {
		w := &world{answer: make(chan [2]int64), fails: map[int64]bool{}}
		for _, f := range sc.fails {
			w.fails[f] = true
		}
		// the options in either order, and sometimes a pause between building the attacker and starting
		// the attack: neither may change anything (the attack's clock starts with Attack)
		opts := []func(*vegeta.Attacker){vegeta.Client(&http.Client{Transport: w}), vegeta.Workers(sc.initw), vegeta.MaxWorkers(sc.maxw)}
		if (len(sc.ops)+int(sc.initw))%2 == 1 {
			opts[1], opts[2] = opts[2], opts[1]
		}
		atk := vegeta.NewAttacker(opts...)
		if (len(sc.ops)+int(sc.maxw%7))%3 == 0 {
			time.Sleep(300 * time.Millisecond)
		}
		w.start = time.Now()
		// Attack is expected to return at once; should it consult the pacer (or anything else that
		// blocks) before returning, the call must not wedge the driver: it runs on its own goroutine
		// and the channel is picked up as soon as the call has returned
		var results <-chan *vegeta.Result
		got := make(chan (<-chan *vegeta.Result), 1)
		go func() { got <- atk.Attack(w.target, w, time.Duration(sc.du), "scripted") }()
		fetch := func() {
			if results == nil {
				select {
				case results = <-got:
				default:
				}
			}
		}
		released := map[int64]bool{}
		closedSeen := false
		recording := true
		huge := false
		snap := func(st *step) {
			synctest.Wait()
			fetch()
			if !recording {
				return
			}
			w.mu.Lock()
			st.now = int64(time.Since(w.start))
			st.npaces, st.pending, st.pe, st.ph = w.calls, w.pending, w.pe, w.ph
			for _, e := range w.entries {
				st.entries = append(st.entries, [2]int64{e.seq, e.at})
			}
			w.mu.Unlock()
			sort.Slice(st.entries, func(i, j int) bool { return st.entries[i][0] < st.entries[j][0] })
			st.tfails = atomic.LoadInt64(&w.tfails)
			out.steps = append(out.steps, *st)
		}
		answer := func(wait int64, stop bool) bool {
			w.mu.Lock()
			p := w.pending
			w.pending = false
			w.mu.Unlock()
			if !p {
				return false
			}
			s := int64(0)
			if stop {
				s = 1
			}
			w.answer <- [2]int64{wait, s}
			snap(&step{kind: 1, a: wait, b: s})
			return true
		}
		advance := func(d int64) {
			w.mu.Lock()
			p := w.pending
			w.mu.Unlock()
			if p {
				return // the clock does not move while a consultation is pending
			}
			time.Sleep(time.Duration(d))
			snap(&step{kind: 2, a: d})
		}
		complete := func(newest bool) bool {
			w.mu.Lock()
			var pick *entry
			for _, e := range w.entries {
				if !released[e.seq] && (pick == nil || newest) {
					pick = e
				}
			}
			w.mu.Unlock()
			if pick == nil {
				return false
			}
			released[pick.seq] = true
			close(pick.rel)
			snap(&step{kind: 3, a: pick.seq})
			return true
		}
		var kept []*vegeta.Result // every result the caller received, looked at again at the end
		var keptSeq []uint64
		consume := func() {
			st := step{kind: 4}
			select {
			case r, ok := <-results:
				if ok {
					kept, keptSeq = append(kept, r), append(keptSeq, r.Seq)
					st.cons, st.consSeq = 1, int64(r.Seq)
				} else {
					st.cons = 2
					closedSeen = true
				}
			default:
			}
			snap(&st)
		}
		consumeGot := func() bool {
			st := step{kind: 4}
			got := false
			select {
			case r, ok := <-results:
				got = true
				if ok {
					kept, keptSeq = append(kept, r), append(keptSeq, r.Seq)
					st.cons, st.consSeq = 1, int64(r.Seq)
				} else {
					st.cons = 2
					closedSeen = true
				}
			default:
			}
			snap(&st)
			return got
		}
		stop := func() {
			b := atk.Stop()
			snap(&step{kind: 5, stop: b})
		}
		snap(&step{kind: 0})
		for _, op := range sc.ops {
			switch op {
			case opTick0:
				answer(0, false)
			case opTickNeg:
				answer(-3e6, false)
			case opTickW:
				if answer(5e6, false) {
					advance(5e6)
				}
			case opTickShort:
				if answer(300e3, false) {
					advance(300e3)
				}
			case opTickLong:
				if answer(7e6, false) {
					advance(4e6)
				}
			case opTickHuge:
				if answer(math.MaxInt64, false) {
					huge = true
					advance(50e6)
				}
			case opPaceStop:
				answer(0, true)
			case opCompleteOld:
				complete(false)
			case opCompleteNew:
				complete(true)
			case opConsume:
				consume()
			case opStop:
				stop()
			case opAdvance:
				advance(3e6)
			}
		}
		// finish: stop, let everything complete, drain
		stop()
		if huge { // the loop sleeps "forever": let forever pass (virtual time), only the final flags matter afterwards
			recording = false
			time.Sleep(math.MaxInt64)
			synctest.Wait()
		}
		for i := 0; i < 48 && !closedSeen; i++ { // a stopped loop may still win the select against stopch a few times (2^-48)
			if i == 10 {
				recording = false // keep driving, stop recording: only the final flags matter from here on
			}
			answer(0, false)
			if !huge { // (the end of virtual time has been reached otherwise; the runtime cannot sleep there)
				advance(20e6) // let a sleeping loop wake up
			}
			for complete(false) {
			}
			for j := 0; j < 200 && !closedSeen; j++ {
				if !consumeGot() {
					break
				}
			}
		}
		out.ended = closedSeen
		for i := range kept {
			if kept[i].Seq != keptSeq[i] {
				out.aliased = true
			}
		}
		out.lateStop = atk.Stop()
		synctest.Wait()
		// goroutines still blocked when the bubble's root function returns make synctest.Test
		// panic with a deadlock report: that panic is the leak detector (see the deferred recover)
	})
	return out
}

func wire(prop string, id string, sc script, o outcome) string {
	var b strings.Builder
	tag := fmt.Sprintf("w%d.m%d", sc.initw, sc.maxw)
	if sc.du > 0 {
		tag += ".du"
	}
	if len(sc.fails) > 0 {
		tag += ".tfail"
	}
	fmt.Fprintf(&b, "%s %s %s;nt %d %d %d %d", prop, id, tag, sc.maxw, sc.initw, sc.du, len(sc.fails))
	for _, f := range sc.fails {
		fmt.Fprintf(&b, " %d", f)
	}
	fmt.Fprintf(&b, " %d", len(o.steps))
	bz := func(x bool) int {
		if x {
			return 1
		}
		return 0
	}
	for _, s := range o.steps {
		fmt.Fprintf(&b, " %d %d %d", s.kind, s.a, s.b)
		fmt.Fprintf(&b, " %d %d %d %d %d %d", s.now, s.npaces, bz(s.pending), s.pe, s.ph, len(s.entries))
		for _, e := range s.entries {
			fmt.Fprintf(&b, " %d %d", e[0], e[1])
		}
		fmt.Fprintf(&b, " %d %d %d %d", s.cons, s.consSeq, bz(s.stop), s.tfails)
	}
	fmt.Fprintf(&b, " %d %d %d %d %d", bz(o.leak), bz(o.panicked), bz(o.ended), bz(o.lateStop), bz(o.aliased))
	return b.String()
}

func TestDrive(t *testing.T) {
	outPath := os.Getenv("VH_OUT")
	if outPath == "" {
		t.Skip("VH_OUT not set")
	}
	prop := os.Getenv("VH_PROP")
	seed, _ := strconv.ParseInt(os.Getenv("VH_SEED"), 10, 64)
	tier := os.Getenv("VH_TIER")
	only := os.Getenv("VH_ONLY")
	f, err := os.Create(outPath)
	if err != nil {
		t.Fatal(err)
	}
	defer f.Close()
	bw := bufio.NewWriterSize(f, 1<<20)
	defer bw.Flush()

	var scripts []script
	// exhaustive part: every sequence of abstract operations up to length L for small configurations
	L := 4
	if tier == "thorough" {
		L = 5
	}
	alphabet := []int{opTick0, opTickW, opPaceStop, opCompleteOld, opCompleteNew, opConsume, opStop}
	type cfgT struct {
		initw, maxw uint64
	}
	var cfgs []cfgT
	for iw := uint64(0); iw <= 3; iw++ {
		for mw := uint64(1); mw <= 3; mw++ {
			cfgs = append(cfgs, cfgT{iw, mw})
		}
	}
	var rec func(prefix []int, depth int)
	var seqs [][]int
	rec = func(prefix []int, depth int) {
		if len(prefix) > 0 {
			seqs = append(seqs, append([]int(nil), prefix...))
		}
		if depth == 0 {
			return
		}
		for _, a := range alphabet {
			rec(append(prefix, a), depth-1)
		}
	}
	rec(nil, L)
	for _, c := range cfgs {
		for _, s := range seqs {
			scripts = append(scripts, script{maxw: c.maxw, initw: c.initw, ops: s})
		}
	}
	nExh := len(scripts)
	// random part: long scripts, many workers, durations, targeter failures
	rng := rand.New(rand.NewSource(seed))
	nRand := 400
	if tier == "thorough" {
		nRand = 6000
	}
	for i := 0; i < nRand; i++ {
		sc := script{maxw: uint64(1 + rng.Intn(4)), initw: uint64(rng.Intn(5))}
		if rng.Intn(6) == 0 {
			sc.maxw, sc.initw = uint64(1+rng.Intn(64)), uint64(rng.Intn(64))
		}
		if rng.Intn(9) == 0 { // "unlimited": the default and other values beyond the signed range
			sc.maxw = []uint64{math.MaxUint64, 1 << 63, 1<<63 + 3, math.MaxInt64}[rng.Intn(4)]
			sc.initw = uint64(rng.Intn(3))
		}
		if rng.Intn(3) == 0 {
			sc.du = int64(1+rng.Intn(20)) * 1e6
		}
		if rng.Intn(4) == 0 {
			sc.fails = []int64{int64(rng.Intn(6))}
		}
		n := 5 + rng.Intn(40)
		if rng.Intn(10) == 0 {
			n = 200
		}
		for j := 0; j < n; j++ {
			op := rng.Intn(nOps)
			if op == opStop && rng.Intn(4) != 0 {
				op = opTick0
			}
			if op == opPaceStop && rng.Intn(4) != 0 {
				op = opTickW
			}
			sc.ops = append(sc.ops, op)
		}
		if rng.Intn(8) == 0 { // one "wait forever" answer somewhere, preceded by a consultation that let time pass
			at := rng.Intn(len(sc.ops))
			sc.ops = append(sc.ops[:at:at], append([]int{opTickW, opTickHuge, opAdvance, opCompleteOld, opConsume}, sc.ops[at:]...)...)
		}
		scripts = append(scripts, sc)
	}
	meta := map[string]interface{}{"exhaustive_scripts": nExh, "random_scripts": nRand, "max_exhaustive_length": L}
	dist := map[string]int{}
	var samples []interface{}
	for i, sc := range scripts {
		id := fmt.Sprintf("%d.0", i)
		if only != "" && only != strconv.Itoa(i) {
			continue
		}
		o := runScript(t, sc)
		fmt.Fprintln(bw, wire(prop, id, sc, o))
		kind := "exhaustive"
		if i >= nExh {
			kind = "random"
		}
		dist[fmt.Sprintf("%s/w%d/m%d/len%d", kind, min(int(sc.initw), 4), min(int(sc.maxw), 4), lenClass(len(sc.ops)))]++
		if len(samples) < 5 && (i%1999 == 7 || i == nExh+3) {
			samples = append(samples, map[string]interface{}{"case": id, "initw": sc.initw, "maxw": sc.maxw, "du": sc.du, "targeter_fails_at": sc.fails,
				"ops": sc.ops, "steps_recorded": len(o.steps), "ended": o.ended, "leak": o.leak})
		}
	}
	// C02 also covers the command's result pump and signal handling: interrupt the real command once
	ncli := 0
	if prop == "2" && only == "" {
		for i := 0; i < 4; i++ {
			if line, ok := cliSignalCase(prop, i, seed); ok {
				fmt.Fprintln(bw, line)
				dist["cli/interrupt-once"]++
				ncli++
			}
		}
		rounds := 3000
		if tier == "thorough" {
			rounds = 40000
		}
		for i := 0; i < 4; i++ {
			fmt.Fprintln(bw, stopStress(prop, i, rounds/4))
			dist["stop-stress"]++
			ncli++
		}
		for i := 0; i < 3; i++ {
			fmt.Fprintln(bw, preStop(prop, i))
			dist["stop-before-attack"]++
			ncli++
		}
		for i := 0; i < 6; i++ {
			fmt.Fprintln(bw, optionLeak(prop, i, seed))
			dist["option-goroutines"]++
			ncli++
		}
		for i := 0; i < 3; i++ {
			if line, ok := cliSignalTwice(prop, i, seed); ok {
				fmt.Fprintln(bw, line)
				dist["cli/interrupt-twice"]++
				ncli++
			}
		}
	}
	if prop == "3" && only == "" {
		for i := 0; i < 6; i++ {
			if line, ok := cliWorkers(prop, i, seed); ok {
				fmt.Fprintln(bw, line)
				dist["cli/workers"]++
				ncli++
			}
		}
	}
	if prop == "4" && only == "" {
		nreal := 40
		if tier == "thorough" {
			nreal = 1500
		}
		for i := 0; i < nreal; i++ {
			fmt.Fprintln(bw, realPacer(t, prop, i, seed))
			dist["real-constant-pacer"]++
			ncli++
		}
	}
	meta["cli_cases"] = ncli
	meta["cases"], meta["distribution"], meta["samples"] = len(scripts)+ncli, dist, samples
	if mp := os.Getenv("VH_META"); mp != "" {
		b, _ := json.MarshalIndent(meta, "", " ")
		os.WriteFile(mp, b, 0o644)
	}
}

func lenClass(n int) int {
	switch {
	case n <= 5:
		return n
	case n < 50:
		return 49
	}
	return 200
}
