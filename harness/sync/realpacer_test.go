package sync

import (
	"fmt"
	"io"
	"math/rand"
	"net/http"
	"strconv"
	"strings"
	stdsync "sync"
	"testing"
	"testing/synctest"
	"time"

	vegeta "github.com/tsenart/vegeta/v12/lib"
)

type rtFunc func(*http.Request) (*http.Response, error)

func (f rtFunc) RoundTrip(r *http.Request) (*http.Response, error) { return f(r) }

// realPacer runs the real attack loop with the real ConstantPacer in virtual time, against a transport
// whose answers take up to a few pacing intervals (so the loop falls behind and catches up), and
// records the instant every hit reaches the transport.  The tie of attack_loop_constant_on_schedule
// (Props/C01.v, C04.v): by any instant t at most Freq*t/Per hits have started.
func realPacer(t *testing.T, prop string, idx int, seed int64) string {
	rng := rand.New(rand.NewSource(seed*7919 + int64(idx)))
	freq := []int{1, 3, 7, 50, 333, 1000, 20000, 1 << 20}[rng.Intn(8)]
	per := []time.Duration{time.Millisecond, 10 * time.Millisecond, time.Second, 7 * time.Microsecond, time.Minute, 999983}[rng.Intn(6)]
	hits := int64(20 + rng.Intn(200))
	du := time.Duration(hits * int64(per) / int64(freq))
	if du < 1 {
		du = 1
	}
	interval := int64(per) / int64(freq)
	maxw := uint64(1 + rng.Intn(8))
	initw := uint64(rng.Intn(10))
	var line string
	synctest.Test(t, func(t *testing.T) {
		var mu stdsync.Mutex
		entries := map[int64]int64{}
		var start time.Time
		rt := rtFunc(func(req *http.Request) (*http.Response, error) {
			seq, _ := strconv.ParseInt(req.Header.Get("X-Vegeta-Seq"), 10, 64)
			at := int64(time.Since(start))
			mu.Lock()
			if _, dup := entries[seq]; dup {
				entries[seq] = -1
			} else {
				entries[seq] = at
			}
			var d int64
			switch rng.Intn(4) {
			case 0:
			case 1:
				d = rng.Int63n(interval + 1)
			default:
				d = rng.Int63n(3*int64(maxw)*(interval+1) + 1)
			}
			mu.Unlock()
			time.Sleep(time.Duration(d))
			return &http.Response{StatusCode: 200, Status: "200 OK", Body: io.NopCloser(strings.NewReader("")), Request: req,
				Proto: "HTTP/1.1", ProtoMajor: 1, ProtoMinor: 1, Header: http.Header{}}, nil
		})
		atk := vegeta.NewAttacker(vegeta.Client(&http.Client{Transport: rt}), vegeta.Workers(initw), vegeta.MaxWorkers(maxw))
		start = time.Now()
		n := 0
		for range atk.Attack(vegeta.NewStaticTargeter(vegeta.Target{Method: "GET", URL: "http://real.example/"}),
			vegeta.ConstantPacer{Freq: freq, Per: per}, du, "realpacer") {
			n++
			if n > 5000 {
				atk.Stop()
			}
		}
		var b strings.Builder
		fmt.Fprintf(&b, "%s realpacer%d.0 real.constant;nt -6 %d %d %d %d", prop, idx, freq, int64(per), int64(du), n)
		for i := 0; i < n; i++ {
			at, ok := entries[int64(i)]
			if !ok {
				at = -1
			}
			fmt.Fprintf(&b, " %d", at)
		}
		fmt.Fprintf(&b, " %d 1", n)
		line = b.String()
	})
	return line
}
