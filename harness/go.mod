module verifharness

go 1.22

require github.com/tsenart/vegeta/v12 v12.0.0

require (
	github.com/influxdata/tdigest v0.0.1 // indirect
	github.com/josharian/intern v1.0.0 // indirect
	github.com/mailru/easyjson v0.7.7 // indirect
	github.com/rs/dnscache v0.0.0-20230804202142-fc85eb664529 // indirect
	golang.org/x/net v0.27.0 // indirect
	golang.org/x/sync v0.7.0 // indirect
	golang.org/x/text v0.16.0 // indirect
)

replace github.com/tsenart/vegeta/v12 => /repo
