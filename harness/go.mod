module verifharness

go 1.23

require (
	github.com/miekg/dns v1.1.61
	github.com/prometheus/client_golang v1.19.1
	github.com/prometheus/client_model v0.6.1
	github.com/tsenart/vegeta/v12 v12.0.0
)

require (
	github.com/beorn7/perks v1.0.1 // indirect
	github.com/cespare/xxhash/v2 v2.3.0 // indirect
	github.com/influxdata/tdigest v0.0.1 // indirect
	github.com/josharian/intern v1.0.0 // indirect
	github.com/mailru/easyjson v0.7.7 // indirect
	github.com/munnerz/goautoneg v0.0.0-20191010083416-a7dc8b61c822 // indirect
	github.com/prometheus/common v0.55.0 // indirect
	github.com/prometheus/procfs v0.15.1 // indirect
	github.com/rs/dnscache v0.0.0-20230804202142-fc85eb664529 // indirect
	github.com/tsenart/go-tsz v0.0.0-20180814235614-0bd30b3df1c3 // indirect
	golang.org/x/net v0.27.0 // indirect
	golang.org/x/sync v0.7.0 // indirect
	golang.org/x/sys v0.22.0 // indirect
	golang.org/x/text v0.16.0 // indirect
	google.golang.org/protobuf v1.34.2 // indirect
)

replace github.com/tsenart/vegeta/v12 => /repo
