"""Per-property configuration of bin/check: clause texts, rules, assumptions, trusted base."""
import os, subprocess, re

COMMON_TB = [
    "Coq 8.16.1 kernel incl. vm_compute (no native_compute); full .vo build via coq_makefile/make",
    "no Axiom/Parameter/Admitted in coq/ (grep gate on every run)",
    "extraction with ExtrOcamlBasic only (Extract Inductive bool/option/unit/list/prod/sumbool/sumor, Extract Inlined Constant andb/orb); Z/positive/nat stay extracted inductives",
    "OCaml 4.13.1 + ocaml/driver.ml (decimal<->binary integer conversion, line splitting)",
    "Go harness harness/cmd/vh: generators, recording wrappers, canonicalisation to the integer wire format",
    "modelled not verified: the vegeta Go code named in the property's anchors; tie = differential run on this run's cases",
]

PROPS = {}


def reg(pid, **kw):
    PROPS[pid] = kw


reg("C12", needs_cli=True,
    rule="cases = (bucket list, latency multiset) with latencies on/just below/just above every bound, "
         "empty sets, non-increasing and below-first-bound lists (outside the domain, model comparison only), "
         "and textual bucket specs with random units/spacing plus a malformed stream; a case is non-trivial "
         "(tag ;nt) when it has >=2 buckets and >=1 latency, or is a textual spec; distinct = distinct wire content",
    clauses={1: "Add panicked inside the property's domain", 2: "counts differ from the partition counts",
             3: "Total differs from the number of results", 4: "counts do not sum to the number of results",
             5: "JSON rendering panicked", 6: "JSON rendering is not (bucket_i, count_i) for all buckets",
             7: "text rendering rows are not (bucket_i, count_i) for all buckets", 8: "bucket counts of a histogram filled through Metrics.Add differ from the partition counts",
             20: "accepted specification yields no bucket", 21: "first parsed bound is positive (does not cover 0)",
             22: "well-formed specification rejected", 23: "parsed bounds differ from the given bounds (+ implicit 0)"},
    assumptions=["time.ParseDuration is library code: reference model Base/Duration.v (exact fraction; float rounding of fractions is a declared don't-care)",
                 "text/tabwriter, fmt and encoding/json are used by the harness to read the renderings back"],
    timeout={"quick": 300, "thorough": 1800})


def get(pid):
    return PROPS.get(pid, {})


def rule(pid):
    return get(pid).get("rule", "")


def clause_text(pid, kind, clause):
    if kind == 1:
        return "model/implementation disagreement code %d: %s" % (clause, get(pid).get("diffs", {}).get(clause, ""))
    return get(pid).get("clauses", {}).get(clause, "clause %d" % clause)


def assumptions(pid):
    return get(pid).get("assumptions", [])


FAST_TB = ["this check judges its cases with the zarith-backed extraction (Coq standard library ExtrOcamlZBigInt: Extract Inductive positive/Z/N => Big_int_Z.big_int "
           "and its Extract Constant directives for Pos/N/Z add, succ, pred, sub, mul, min, max, compare, eqb, div, modulo, div_eucl, shiftl/shiftr, opp, abs, of_N, to_N, ...; "
           "OCaml zarith 1.12) because the plain extraction is too slow; on every run a sample of the cases is re-judged with the plain extraction (ExtrOcamlBasic only) "
           "and the verdict lines must be identical"]


def trusted_base(pid):
    return COMMON_TB + (FAST_TB if get(pid).get("fast") else []) + get(pid).get("trusted_base", [])


def notes(pid):
    return get(pid).get("notes", [])


def timeout(pid, tier):
    return get(pid).get("timeout", {}).get(tier, 1800 if tier == "thorough" else 600)


def extra_coverage(pid, tier, meta):
    out = {}
    ex = get(pid).get("exhaustive")
    if ex:
        out["exhaustive"] = True
        out["exhaustive_over"] = ex
    for k in ("states", "transitions"):
        if k in meta:
            out[k] = meta[k]
    return out


def regenerate(pid, root, repo, goenv, scratch):
    """T2: regenerate coq/Gen/*.v from the current source (no-op for properties without a translator)."""
    # Gen/ is regenerated on every run of every check, so that it always reflects the tree the
    # run sees; only the properties that state obligations over it are affected by the outcome.
    ok, log_ = gen_skel(root, repo, goenv, scratch)
    if not get(pid).get("gen"):
        return True, ""
    return ok, log_


def is_obligation_failure(pid, text):
    """Props files that state obligations over regenerated (Gen/) definitions: a failure there is a
    broken proof obligation, not an infrastructure error."""
    pat = get(pid).get("obligation_files")
    if not pat:
        return False
    return "Error" in text and any(f in text for f in pat)


def gen_skel(root, repo, goenv, scratch):
    """T2: regenerate coq/Gen/Skel.v from the current source tree (rewritten only when it changed)."""
    import shutil
    h = os.path.join(root, "harness")
    out = os.path.join(scratch, "Skel.v")
    try:
        shutil.copyfile(os.path.join(repo, "go.sum"), os.path.join(h, "go.sum"))
    except OSError:
        pass
    r = subprocess.run(["go", "run", "./cmd/skel", "-repo", repo, "-out", out], cwd=h, env=goenv,
                       stdout=subprocess.PIPE, stderr=subprocess.STDOUT, text=True, timeout=600)
    if r.returncode != 0 or not os.path.exists(out):
        return False, r.stdout
    dst = os.path.join(root, "coq", "Gen", "Skel.v")
    new = open(out).read()
    if not os.path.exists(dst) or open(dst).read() != new:
        open(dst, "w").write(new)
    return True, ""


def coqchk(pid, root):
    coq = os.path.join(root, "coq")
    mod = "V.Props." + pid
    args = ["timeout", "2400", "coqchk", "-silent", "-o", "-Q", ".", "V"]
    if get(pid).get("coqchk_norec"):
        # Props/Cxx depends on large add-on libraries (Interval, Coquelicot, Flocq over the reals):
        # re-check every module of this development, admit the installed libraries as they are
        mods = []
        for line in open(os.path.join(coq, "_CoqProject")):
            line = line.strip()
            if line.endswith(".v") and not line.startswith("Props/"):
                mods.append("V." + line[:-2].replace("/", "."))
        for m in mods + [mod]:
            args += ["-norec", m]
    else:
        args.append(mod)
    try:
        r = subprocess.run(args, cwd=coq, stdout=subprocess.PIPE, stderr=subprocess.STDOUT, text=True, timeout=2500)
    except subprocess.TimeoutExpired:
        return False, "coqchk timeout"
    return r.returncode == 0, r.stdout

BASELINE_OFF = "cd /repo && go build ./... && go test -vet=off -count=1 -timeout 25m ./..."
HOOK_COMMITS = ["ce197cb", "48ac96e"]

PROPS["C12"].update(
    level_text="Theorems hist_partition / hist_exactly_one_bucket / hist_no_panic / render_counts / unmarshal_preserves / unmarshal_covers_nonnegative are proved in Coq for all bucket lists and latency lists (unbounded) about a Gallina model of Histogram.Add, the renderers and Buckets.UnmarshalText; the model is tied to the Go code on every run by differential execution (extracted model vs real code) and the property is decided on every implementation observation by a checker defined in Coq.",
    technique="Coq induction over the add sequence (model), extracted-model differential correspondence",
)

reg("C10", needs_cli=True,
    rule="a case = one result multiset (0..2000 results, every 97th index 2*10^4 / 10^5 in thorough; equal, "
         "increasing, reversed, random timestamps; zero/small/huge latencies; 14 status codes; 7 error texts) "
         "in one of 4 orders (in order, reversed with Close before anything and after every Add, two shuffles "
         "one with Close every k adds), observed through the JSON report of the real reporter and the status-code line of one text reporter used after every Close; every third multiset also as a gob file in shuffled order through `vegeta report -type json|text`; non-trivial = "
         "at least 2 results; distinct = distinct wire content",
    clauses={1: "request count", 2: "status-code histogram", 3: "byte totals", 4: "latency total",
             5: "latency max", 6: "latency min", 7: "earliest", 8: "latest", 9: "end", 10: "duration",
             11: "wait", 12: "set of distinct error texts", 13: "rate", 14: "throughput", 15: "success ratio",
             16: "means (bytes in/out, latency)", 17: "the text report (one reporter used after every Close, or the report command) lists other status codes / counts than the histogram"},
    assumptions=["float fields (rate, throughput, success, byte means) are compared with the model's exact rational within a relative guard band of 2^-40; the latency mean within 1 ns + 2^-40",
                 "domain: non-negative latencies/byte counts, sums below 2^64 / 2^63, timestamps 1970..2191 (so the zero time.Time is never a data value)",
                 "percentiles are decided by C11, not here", "encoding/json and time.Time JSON formatting are used to read the report back"],
    level_text="metrics_eq_ref, metrics_perm and close_idempotent_interleaved are proved in Coq for all result lists / permutations / placements of Close (unbounded) about a Gallina model of Metrics.Add/Close and LatencyMetrics.Add with the 64-bit wraps written out; the model is tied to the Go code on every run by differential execution and each implementation report is judged against the reference computation by a checker defined in Coq.",
    technique="Coq induction + permutation invariance over the model, differential correspondence",
    timeout={"quick": 600, "thorough": 3000})

reg("C13",
    needs_cli=True,
    rule="a case = a result sequence (n up to 600) split into 1..6 non-empty files of unequal lengths (incl. "
         "one-record files), each file in a random encoding (gob/csv/json); observed through (a) "
         "NewRoundRobinDecoder over DecoderFor per file, drained to the error and called once more, (b) the "
         "real CLI `vegeta encode -to json f1..fk`, (c) `vegeta report -type json|hist[...]|text` over the "
         "split vs over the union (percentile fields removed); non-trivial = more than one file",
    clauses={1: "number of records delivered differs from the total", 2: "an input's records are not delivered in its own order exactly once",
             3: "a record was delivered that is in no input", 4: "end-of-stream not reported (or not sticky) after the last record",
             5: "vegeta encode failed on the files", 6: "JSON report of the split differs from the report of the union",
             7: "hist report of the split differs", 8: "text report of the split differs (latency line excluded)"},
    assumptions=["estimated percentiles are excluded from the split/union comparison (they depend on the digest's merge history; C11 bounds them)",
                 "record identity = Seq, unique per case"],
    level_text="rr_exactly_once, rr_end_only_when_all_exhausted and report_split_invariant are proved in Coq for every number of inputs and all lengths (unbounded) about a Gallina model of NewRoundRobinDecoder, the latter composed with C10's metrics_perm; the exact delivery order predicted by the extracted model is compared with the real decoder and the real `vegeta encode`/`report` commands on every run.",
    technique="Coq induction over the drain (model) + permutation invariance; differential correspondence incl. the CLI",
    timeout={"quick": 600, "thorough": 3000})

reg("C20", needs_cli=True,
    rule="a case = 0..2000 results (every 50th index 10^4) over up to 3 methods x 3 URLs x 5 status codes and 3 "
         "error messages, latencies on/just around every default bucket bound, observed sequentially or from 16 "
         "goroutines (every third index) into a fresh registry, then gathered; every 60th index the real `vegeta attack -prometheus-addr` is interrupted with requests in flight, its exporter scraped 1.3 s later and its output file counted; non-trivial = at least 2 results",
    clauses={1: "exported label sets differ from the observed ones", 2: "bytes-in counter != sum", 3: "bytes-out counter != sum",
             4: "histogram sample count != number of results", 5: "histogram sum != total seconds",
             6: "cumulative bucket counts inconsistent with the latencies", 7: "failure-counter children differ from the (label set, message) pairs that occurred",
             8: "failure counter != number of results with that error", 9: "the registry cannot gather the metrics after the observations (inconsistent children)",
             10: "the attack command with -prometheus-addr, interrupted with requests in flight, wrote results its exporter never observed (or observed more than it wrote)"},
    assumptions=["prometheus/client_golang is library code, modelled at the level of what a registry exports (additive counter vectors, cumulative histogram buckets); its atomicity under concurrent Observe is assumed and sampled (16 goroutines)",
                 "totals below 2^53 (float64 counters); histogram sum compared within 2^-30 relative (float accumulation)"],
    level_text="prom_sums_bytes, prom_sums_histogram, prom_failures, prom_failure_children and prom_perm are proved in Coq for every observation sequence (unbounded) about a Gallina model of Metrics.Observe; tied to the Go code on every run by gathering a real registry and comparing with the extracted model and with the reference sums.",
    technique="Coq induction over the observation sequence; differential correspondence on gathered metric families",
    timeout={"quick": 600, "thorough": 3000})

reg("C01", fast=True, fast_only=("sine",), coqchk_norec=True,
    rule="constant pacer: single calls on a boundary lattice of (Freq, Per, elapsed, hits) incl. 0, +-1, Per+-1, "
         "2^31, 2^62, MaxInt64, negatives, hits near the schedule and near MaxUint64; closed loops in virtual time "
         "(10..400 calls, every 400th 20000) for dividing, non-dividing and above-1-per-ns rates with no, rare and "
         "frequent stalls. Linear pacer (every 24th case): closed loops of 20..270 calls, slopes flat / steep / negative (rate reaching zero) / high rates / degenerate and negative "
         "parameters, every call recorded. Sine pacer (every 24th case): closed loops of 20..320 calls, periods 1 s .. 10^6 s, means 1..1000 per 1..60 s, amplitudes 0, 0.1, 0.5, 0.9, 0.99, 0.999, 0.9999 of the mean, "
         "start at the four quarter points or a random phase, invalid configurations, no / rare / frequent stalls, every call recorded; non-trivial = positive Freq and Per",
    clauses={1: "Pace panicked", 2: "zero frequency/unit does not mean unlimited rate", 3: "negative frequency/unit does not stop the attack",
             4: "released hit puts the count more than one hit above the schedule", 5: "positive wait although the count is behind the schedule",
             6: "wait wrapped around (instant outside int64)", 7: "wait overshoots the schedule by more than the 1ns quantisation",
             20: "pacer panicked in the closed loop", 21: "closed-loop count exceeds schedule + 1 at a release instant",
             22: "release instants decrease", 23: "stall-free closed-loop count falls more than one hit (+1ns/hit) behind the schedule",
             40: "linear pacer panicked", 41: "linear pacer: released hit puts the count more than one hit above the schedule",
             42: "linear pacer: positive wait although the count is behind the schedule", 43: "linear pacer: negative frequency/unit does not stop the attack",
             44: "linear pacer: zero frequency/unit does not mean unlimited rate", 60: "sine pacer panicked", 61: "sine pacer: released hit puts the count more than one hit above the schedule",
             62: "sine pacer: positive wait although the count is behind the schedule", 63: "sine pacer: stall-free count falls more than one hit (+1ns/hit) behind the schedule",
             64: "sine pacer: invalid configuration does not stop the attack",
             45: "linear pacer, negative slope, while rate^2 >= 4|slope|delta^2: released hit puts the count more than one hit above the schedule"},
    diffs={10: "ConstantPacer.Pace differs from the model", 11: "ConstantPacer.Rate differs", 30: "closed-loop release instants differ from the model's", 31: "closed-loop final outcome differs",
           50: "LinearPacer.Pace wait differs from the exact-Q model beyond the guard band", 51: "LinearPacer.Rate differs", 52: "LinearPacer: model stops, implementation waits", 53: "LinearPacer: implementation stops, model waits",
           71: "SinePacer.Rate lies outside the verified enclosure of M + A sin(O + 2 pi t / P)"},
    assumptions=["elapsed in [0, 2^63), hits in [0, 2^64) for the contract theorems (const_dom); the no-panic / sign theorems hold for all integers",
                 "linear pacer: float rounding is not modelled; the exact-Q model is compared inside a guard band (2^-30 relative on the schedule, 3 ns + delta on the wait), calls meeting float special values or out-of-range conversions are don't-care",
                 "sine pacer: Pace (a float64 numerical inversion) is not modelled; each real call is judged against verified enclosures of the schedule; a comparison the enclosure cannot decide is don't-care; |StartAt| <= 500",
                 "the lower bound (count not more than one hit + 1 ns of schedule per hit interval behind) is decided on stall-free histories only: after a stall the attacker is behind by construction"],
    trusted_base=["the sine statements (sine_schedule_enclosed, sine_rate_enclosed, sine_schedule_mono, sine_closed_loop_upper_partial) use Coq's real numbers: standard-library axioms ClassicalDedekindReals.sig_not_dec, sig_forall_dec, "
                  "Classical_Prop.classic, FunctionalExtensionality.functional_extensionality_dep as Print Assumptions reports them, and the Interval tactic (bounds on PI, 2^-80) which computes with the kernel's primitive integers and floats "
                  "(PrimInt63.*, PrimFloat.*, Uint63 specification axioms of the standard library)",
                  "thorough tier: coqchk re-checks every module of this development with -norec and admits the installed libraries (standard library reals, Interval, Coquelicot, Flocq) as they are - re-checking those takes over 40 minutes"],
    level_text="attack_loop_constant_on_schedule / attack_constant_total_hits (at most Freq*du/Per + 1 hits in an attack of duration du) / attack_loop_linear_on_schedule / attack_loop_sine_on_schedule_partial carry the closed-loop bound from the idealised loop to every reachable state of the attack LTS (the loop of lib/attack.go with workers, channels, Stop calls, late wake-ups; tie: real ConstantPacer attacks in virtual time in C04's run). Constant pacer, in full: closed_loop_upper (generic, all pacers/stall histories/lengths), const_no_panic, const_neg_stops, const_zero_unlimited, const_overflow_stops, const_contract, const_positive_wait, const_lower proved over Z with the uint64/int64 wrap-arounds written out; bit-exact tie. "
               "Linear pacer: linear_contract_pos, linear_closed_loop_upper (non-negative slope, every stall history, calls at rates <= 5*10^8/s), linear_schedule_mono, linear_positive_wait, linear_neg_stops, linear_zero_unlimited proved over exact rationals; linear_neg_refuted (negative slope: known finding); tie inside a guard band. "
               "Sine pacer, PARTIAL: sine_schedule_enclosed / sine_rate_enclosed (the checker's Q-interval evaluator - Taylor sums + angle doubling + outward rounding - encloses the real schedule and rate), sine_schedule_mono, and sine_closed_loop_upper_partial (count within one hit for every history whose calls keep the per-call contract) proved over R; "
               "that the float64 inversion in Pace keeps the contract is not proved: it is decided call by call on the real pacer with the verified enclosures.",
    technique="Coq proofs over Z (constant), Q (linear) and R with verified Q-interval enclosures (sine); closed-loop induction; bit-exact / guard-band / enclosure-decided differential correspondence",
    timeout={"quick": 900, "thorough": 3600})
reg("C19",
    needs_cli=True,
    rule="textual flag values fed to flag.Value.Set of the real flag types through the verif driver of package main: "
         "-rate N, N/unit, N/kunit, N/compound, N/fraction-of-a-unit (.5s, 0.5s, 1.5s, .25ms, 2.5h, .5s500ms), 0, infinity and 17 malformed forms (each both as raw text against the "
         "model and against the generator's intent, plus the String()->Set round trip; sequences of 2..4 -rate flags); 1..8 repeated -header lines with "
         "random spacing/case and malformed lines; -max-body in every documented notation, -1 and malformed; -dns-ttl; "
         "1..6 repeated -connect-to tuples; -resolvers lists (IPv4 with/without port, invalid, IPv6 = declared don't-care); "
         "the attack command itself with limited/unlimited rates, with/without -duration and -max-workers in random flag order (refusal observed), and with -dns-ttl in {-1,0,10s,1m,default} "
         "against a name served by an in-process name server given with -resolvers (lookups counted); "
         "every case is tagged non-trivial",
    clauses={1: "accepted -rate N/D does not store exactly N per D", 2: "-rate 0/infinity rejected", 3: "-rate 0/infinity does not give an unlimited rate that demands -max-workers",
             4: "malformed -rate accepted", 5: "printed rate does not parse back to the same rate (implementation round trip)", 6: "printed rate read by the model differs from the stored rate",
             7: "max-workers guard trips for a limited rate", 8: "-rate given several times: a later well-formed occurrence does not replace the rate as a whole, or a malformed one is accepted", 30: "well-formed -header rejected", 31: "header values not accumulated in order under the exact key", 32: "a header key is missing",
             81: "the attack command does not refuse exactly the unlimited rates given without -max-workers", 82: "an attack command that was not refused did not run",
             83: "-dns-ttl through the command: -1 still caches, or 0 / a duration looks the name up for every connection",
             43: "-max-body value differs from the documented meaning", 53: "-dns-ttl value differs from the documented meaning",
             64: "the attack command with -connect-to (and any -keepalive / -dns-ttl setting) did not send every request to the replacement address",
             62: "well-formed -connect-to rejected", 63: "-connect-to mapping differs from the documented one", 73: "-resolvers addresses not normalised as documented"},
    diffs={10: "rateFlag.Set accepts a value the model rejects", 11: "rateFlag.Set rejects a value the model accepts", 12: "stored frequency differs from the model's", 13: "stored period differs from the model's", 14: "unlimited-rate guard differs", 15: "the printed form of the rate differs from the model's (Itoa, '/', the Duration.String model of Base/DurString.v)"},
    assumptions=["time.ParseDuration, strconv.Atoi, datasize.UnmarshalText, net.SplitHostPort, net.ParseIP are library code: reference models in Base/Duration.v, Base/Str.v, Model/Flags.v, sampled on every run",
                 "rate_print_parse_closed has no hypothesis left: Atoi(Itoa n) = n (DecimalProofs) and ParseDuration(Duration.String d) = d for 0 < d < 2^63 (duration_string_parses) are theorems about the reference models; the Duration.String model (Base/DurString.v, library code) is compared with the printed form of every accepted rate on each run (diff 15)",
                 "IPv6 resolver addresses are outside the model (don't-care)"],
    trusted_base=["hook: /repo/verif_driver.go and internal/resolver/verif_export.go (build tag verif)"],
    level_text="duration_string_parses, rate_print_parse_closed, maxbody_notation (every n, every documented unit spelling, any blanks), dnsttl_meaning (-1, 0, every printed duration), rate_meaning, rate_default_unit, rate_bare_unit(+values), rate_zero_unlimited, rate_infinity_unlimited, rate_rejects_malformed(+_duration), headers_set_wellformed, headers_accumulate, connect_to_map, connect_to_rejects_wrong_arity, resolver_addrs_default_port are proved in Coq for all strings about byte-level Gallina models of the flag parsers; the models are compared with flag.Value.Set of the real types (through the verif driver of package main) on every run and each stored value is judged against the generator's intent by a checker defined in Coq.",
    technique="Coq proofs over byte-string parser models (incl. Duration.String / ParseDuration round trip); differential correspondence through the package-main driver and the attack command",
    timeout={"quick": 600, "thorough": 3000})

reg("C06",
    rule="one hit (or seq+1 sequential hits, the last one observed) of a real Attacker whose http.Client uses a scripted "
         "RoundTripper: 6 methods x 3 URLs, 0..8 target headers over 11 keys incl. case variants of Host / X-Vegeta-Seq / "
         "X-Vegeta-Attack, optional request body, attack name or none, max-body in {-1,0,|b|-1,|b|,|b|+1,3}, chunked option, "
         "redirect policy in {-1,0,1,2,10} with 0..3 scripted 302 hops, status 100..599, response bodies of 0..5000 bytes "
         "delivered in random chunk sizes, declared Content-Length unknown / exact (every 4th case) / a HEAD answer's (every 9th case: HEAD target, positive length, no body), transport error, read fault after k bytes; all cases are non-trivial",
    clauses={1: "result method/URL differ from the target's", 2: "request method/URL/body differ from the target's",
             3: "a target header is missing or altered in the request (key case / values)", 4: "request carries a header that is neither the target's nor injected",
             5: "sequence header does not match the result's sequence number", 6: "attack-name header wrong", 7: "Host header did not set the request host",
             8: "bytes-in differs from the captured body length", 10: "status code", 11: "response headers", 12: "captured body is not the first max-body bytes",
             13: "bytes-out differs from the request body length", 14: "error text emptiness does not match the status class",
             15: "failed exchange without an error text", 16: "failed exchange with a success status", 17: "response body not read to its end or not closed exactly once"},
    assumptions=["net/http (http.Client.Do, redirect following, NewRequest) is library code; the transport is a scripted oracle",
                 "for a transport error only: non-empty error, no success status, method and URL copied (DESIGN 7.1)"],
    level_text="hit_always_clauses, request_clauses, hit_completed_clauses, captured_is_prefix and hit_failed_clauses are proved in Coq for every target, configuration and exchange (unbounded) about a Gallina model of Attacker.hit/Target.Request over an oracle transport; the model and a clause-by-clause checker defined in Coq are run against real hits through a scripted http.RoundTripper on every run.",
    technique="Coq case analysis/refinement to a clause-by-clause spec; differential correspondence through a scripted RoundTripper",
    timeout={"quick": 600, "thorough": 3000})

reg("C14",
    rule="http format: 1..6 (every tenth case 20..50) targets with upper-case methods, absolute URLs, 0..8 headers over 9 keys "
         "with case variants/repeats/keys also in the defaults, optional @file bodies in a per-case sandbox directory, rendered "
         "with random legal layout (comments and blank lines before request lines, comments between header lines and directly "
         "after a header-less request line, blanks around ':' and at line ends, LF or CRLF, with/without final newline); JSON "
         "format: targets written by the real JSON target encoder mixed with blank lines, malformed objects and a missing final "
         "newline, each line's meaning supplied by encoding/json as an independent reader; defaults: 0..3 header keys whose "
         "value slices have 0..2 spare capacity, optional default body; every returned target is snapshotted at return and "
         "re-inspected after all later calls, the defaults (incl. spare capacity) after decoding; all cases non-trivial",
    clauses={1: "http format: returned targets differ from the described ones (order, merge of defaults, exhaustion)",
             2: "http format: a target returned earlier changed when a later one was decoded", 3: "http format: the default headers were modified",
             4: "json format: returned targets differ from the described ones", 5: "json format: an earlier target changed", 6: "json format: the default headers were modified",
             7: "http format: eager reading (ReadAllTargets, then the static targeter the attack command uses) hands out other targets, or in another order, than call-by-call reading", 8: "json format: eager reading (ReadAllTargets, then the static targeter) hands out other targets, or in another order, than call-by-call reading"},
    diffs={10: "http format: the model's results differ from the targeter's", 20: "json format: the model's results differ from the targeter's", 21: "json format: the model's JSON reader and encoding/json disagree on the meaning of a line", 22: "json format: the model's target encoder writes other bytes than the real encoder"},
    assumptions=["url.ParseRequestURI: reference predicate url_ok; os.ReadFile: finite map; bufio.Scanner token limit (64 KiB) not modelled",
                 "the generated easyjson object decoder is modelled (Model/JsonTarget.v over the JSON reader of Model/Json.v) and, on every run, compared line by line with encoding/json as an independent reader (diff 21); the model's encoder is compared byte for byte with the real encoder's lines wherever the order of header members is determined, i.e. at most one key (diff 22)",
                 "strings.TrimSpace restricted to ASCII white space"],
    level_text="http_decodes_described / http_decodes_described_bytes: for EVERY well-formed file (lines classified by what TrimSpace leaves of them: blank, comment, request, header, @body; comments and blank lines in every legal position; any indentation), every default body/header set and every file map, the model of the http targeter (bufio.ScanLines, the peeking scanner with its empty-string sentinel, the request/header/body state machine, default merge) returns exactly the described targets in order and then ErrNoTargets - proved in Coq by induction over the file; json_target_roundtrip (every target in the domain written by the JSON target encoder reads back as the same target), json_encoder_writes_lines, json_targets_stream (a stream of encoded targets yields exactly them, defaults merged, then exhaustion) and json_defaults_merge for the JSON format; comment_after_request_refuted (the pinned peeking code). Independence of earlier targets and defaults is structural in the model (values) and is decided on the real targeters by re-inspection in the tie.",
    technique="Coq proof by induction over well-formed files on a model of the parser state machine; round-trip and stream theorems of the JSON target codec; differential correspondence with aliasing re-inspection",
    timeout={"quick": 600, "thorough": 3000})

_ATTACK_RULE = ("scripted attacks of the real Attacker under testing/synctest (virtual time; after every environment action the "
                "harness waits for quiescence and snapshots: virtual now, pacer consultations and the pending one's arguments, "
                "transport entries (seq, instant), result taken / channel closed, Stop return values, targeter failures). "
                "Exhaustive part: every sequence of up to 4 (quick) / 5 (thorough) abstract operations over {answer pacer wait 0, "
                "answer wait 5ms and let it pass, pacer stop, complete oldest, complete newest, consume, Stop} for initial workers "
                "0..3 x max workers 1..3; random part: 400 / 6000 scripts of 5..200 operations (also negative waits, waits cut "
                "short, idle advances) with up to 64 workers, durations and a failing targeter call; every script ends by stopping, "
                "completing and draining the attack. Every script is a non-trivial case; distinct = distinct wire content")
_ATTACK_ASSUME = ["the model is an LTS at the granularity of channel operations; interleavings inside the Go runtime between two quiescent points are chosen by the scheduler, not enumerated on the implementation",
                  "net/http client and the transport are replaced by a scripted RoundTripper; testing/synctest (go1.26.8) provides virtual time and quiescence",
                  "liveness clauses assume responses complete and the consumer keeps receiving (the finishing phase of every script does both)"]
_ATTACK_TB = ["go1.26.8 toolchain for the synctest test binary (harness/sync); /repo sources are the same working tree"]
_ATTACK_DIFF = {90: "the real trace is not a run of the model: no model state survives the step with the given index"}

reg("C02", runner="sync", needs_cli=True, rule=_ATTACK_RULE, diffs=_ATTACK_DIFF,
    clauses={201: "a result was delivered twice", 202: "a result was delivered for a hit that never started", 203: "a result was delivered after the channel was closed",
             204: "channel closed before every started hit delivered its result", 205: "more than one Stop call reported that it initiated the stop",
             206: "a goroutine of the attack was left behind", 207: "the attack panicked", 208: "the attack did not end after Stop with completing responses and a draining consumer",
             209: "a Stop call after the end reported that it initiated the stop",
             210: "a result the caller kept changed afterwards (delivered results share storage)",
             250: "the attack command, interrupted once, did not end by itself with status 0",
             251: "the attack command, interrupted once, did not write exactly one result per started hit (sequence numbers 0..n-1, every request the server saw)",
             252: "the attack command, interrupted while requests were still in flight, ended without waiting for them"},
    assumptions=_ATTACK_ASSUME + ["four runs of the real `vegeta attack` (20..120 requests/s against a local server answering after 20..170 ms) are interrupted once with SIGINT after 0.3..0.8 s: the command's result pump and first-signal path (attack.go) are observed end to end; three more runs have 1..3 requests that never complete: the command must still be running 0.8..1.5 s after the interrupt (a second interrupt then ends the run; what the command does on it is recorded, not judged - the second-signal path is not a subject of the property)",
                                  "outside the bubble, on the real scheduler: 4 x 750 rounds (thorough 4 x 10^4) of 2*GOMAXPROCS goroutines calling Stop on one Attacker at the same instant (initiators counted per round), and 6 real attacks of an Attacker built with DNSCaching(ttl > 0) that end by duration / pacer stop / targeter failure, after which no goroutine may still execute code of the library (stack dump, first frame's file); three runs call Stop before Attack on the same Attacker: the stop must not be forgotten (the attack ends by itself, a later Stop does not report having initiated)"],
    trusted_base=_ATTACK_TB,
    level_text="seqs_exact, close_after_all, close_at_most_once, ends_cleanly_progress/terminates/final, stop_exactly_one(+_when_ended), stop_once_flag_exactly_one are proved in Coq as invariants over every label sequence of an executable LTS of Attack/attack/hit/Stop (all interleavings, any length, any configuration with max-workers >= 1); the LTS is tied to the code by trace acceptance: scripted real attacks under synctest must be runs of the model (verified-by-construction search over model states), and the property's clauses are also decided directly on every observed trace.",
    technique="Coq inductive invariants over an LTS (all schedules) + trace acceptance of real runs under synctest",
    timeout={"quick": 900, "thorough": 3000})
reg("C03", runner="sync", needs_cli=True, rule=_ATTACK_RULE, diffs=_ATTACK_DIFF,
    clauses={301: "more hits started-and-not-consumed than max-workers", 302: "a released hit did not start although fewer than max-workers were busy"},
    assumptions=_ATTACK_ASSUME + ["six runs of the real `vegeta attack -workers=1 -max-workers=3|4 [-max-connections=1|2]` at 50/s against four hosts that answer after 300 ms: the number of requests in flight at the hosts must reach max-workers (grow on demand; one less is tolerated, the peak is sampled at the hosts) and never exceed it"], trusted_base=_ATTACK_TB,
    level_text="inflight_le_max, free_capacity_used and busy_then_next_consume are proved in Coq over every reachable state of the attack LTS (all interleavings, all (workers, max-workers) with max >= 1); tie by trace acceptance of scripted real attacks under synctest, clauses also decided on every snapshot.",
    technique="Coq inductive invariants over an LTS + trace acceptance under synctest",
    timeout={"quick": 900, "thorough": 3000})
reg("C04", runner="sync", rule=_ATTACK_RULE, diffs=_ATTACK_DIFF,
    clauses={401: "pacer consulted with wrong hits/elapsed arguments", 402: "more hits started than the pacer had released by then (a hit started before its wait was over)",
             403: "pacer consulted after the duration had elapsed", 404: "more than one hit released after the deadline", 405: "a hit was released (or the pacer consulted) after the pacer said stop",
             406: "real ConstantPacer: more hits had started by some instant than the schedule Freq*t/Per allows",
             407: "real ConstantPacer attack did not end, or results and started hits differ in number",
             408: "real ConstantPacer attack of duration du released more than Freq*du/Per + 1 hits"},
    assumptions=_ATTACK_ASSUME + ["the scripted pacer also answers 'wait forever' (math.MaxInt64) once time has passed: no hit may start, and the attack must still end once (virtual) forever is over",
                                  "40 (thorough 1500) attacks with the real ConstantPacer (1 .. 2^20 hits per 7 us .. 1 min, 20..220 hits, 1..8 workers, answers taking up to 3*max-workers intervals) run in virtual time; the instant every hit reaches the transport is judged against the schedule (attack_loop_constant_on_schedule: at most Freq*t/Per hits have started by t), the duration, and the total (attack_constant_total_hits: at most Freq*du/Per + 1 hits)"],
    trusted_base=_ATTACK_TB,
    level_text="pace_args_hits, pace_args_elapsed, no_early_hit, deadline, stop_means_stop, ticks_are_pacer_answers and loop_keeps_pacer_schedule (for every pacer keeping a per-call contract, every reachable state of the loop - any workers, interleaving, Stop calls, late wake-ups - is on the pacer's schedule) are proved in Coq as trace properties of every run of the attack LTS with virtual time (adversarial pacer, any durations); tie by trace acceptance of scripted real attacks under synctest with exact virtual timestamps, and real ConstantPacer attacks judged against the schedule.",
    technique="Coq inductive invariants over a timed LTS + trace acceptance under synctest",
    timeout={"quick": 900, "thorough": 3000})

for _p in ("C02", "C03", "C04"):
    PROPS[_p]["exhaustive"] = "the exhaustive part only: all sequences of up to 4 (quick) / 5 (thorough) abstract operations for initial workers 0..3 x max-workers 1..3; the random long scripts are a sample"

for _p in ("C02", "C03", "C04"):
    PROPS[_p]["model_budget"] = {"quick": 240, "thorough": 1500}


_T2_TB = ["translator harness/cmd/skel (go/ast, syntactic): which identifiers it treats as shared between concurrent executions of a body (free variables of the closure, receiver/pointer parameters named in the translator), which methods it treats as mutating, how it flattens branches; coq/Gen/Skel.v is regenerated from /repo on every run"]

reg("C05", gen=gen_skel, obligation_files=["Props/C05.v", "Gen/Skel.v"],
    rule="T2: the skeleton of Attacker.hit is regenerated and same_section_ok must hold of it by reflection. T1: real attacks at "
         "unlimited rate for 15 ms (at most 4000 results) with 1..64 workers on a transport that records, per sequence number, its "
         "entry instant and duration (optionally sleeping up to 50us); every 7th case starts a second Attack of the same Attacker 3 ms into the first (the first attack alone is judged); every case is non-trivial",
    clauses={1: "sorted by sequence number the timestamps decrease somewhere (or sequence numbers are not 0..n-1)", 2: "a timestamp lies before the attack's start",
             3: "a timestamp lies after the instant the request reached the transport", 4: "a latency is negative or smaller than the time the transport took",
             5: "timestamp + latency lies before the transport returned",
             6: "the plot (which re-orders results by sequence number and requires time not to decrease) refused results of the attack"},
    assumptions=["the stress is probabilistic: it samples the schedules the Go scheduler produces on this machine; the structural guarantee is the T2 obligation",
                 "the Go memory model is not formalised: the interleaving semantics of the skeletons (Model/Skel.v, Model/SkelData.v) is sequentially consistent"],
    trusted_base=_T2_TB,
    level_text="same_section_sound is proved in Coq for every skeleton, thread count and interleaving (the timestamp read, sequence read and increment form a critical section); seq_counter_single_writer (regenerated from the source on every run: hit's increment is the only statement of lib/attack.go writing the counter field) discharges the model's premise that nothing else changes the counter; section_orders_stamps mechanises the reduction: for every accepted skeleton, any number of threads, any interleaving and any clock that never runs backwards, the sequence numbers read are pairwise different and ordered like the timestamps (hit_stamps_ordered: for the skeleton regenerated from the current source); hit_same_section is re-proved by reflection on the skeleton regenerated from the current source on every run; hit_ordered and ts_bounds are proved as invariants of the attack LTS where the section is one step. Tie: translator (T2) + stress runs judged by a checker defined in Coq.",
    technique="Coq soundness proof of a static checker + mechanised reduction to ordered stamps (all interleavings, any clock) + reflection on a skeleton regenerated from source; LTS invariant; stress",
    timeout={"quick": 600, "thorough": 3000})
reg("C15", gen=gen_skel, obligation_files=["Props/C15.v", "Gen/Skel.v"],
    rule="T2: the skeletons of the three targeter closures are regenerated and lockset_ok must hold of each by reflection. T1: 1..64 "
         "goroutines draw concurrently from one real http / JSON targeter over 0..5000 targets until each has seen exhaustion three "
         "times (every call stamped by a global atomic counter; every other stream case with default headers built as repeated -header flags build them - three values for the key the targets set themselves, spare capacity - and every target handed out looked at again when all draws are over; in the http format every 5th target has no header lines and is followed by an indented comment and, directly, the next request line), and n draws from a static targeter over 1..7 targets; "
         "real attacks (unlimited rate, 1..32 workers) drawing 1..1500 targets with own header lines and bodies from a JSON / http stream targeter, every request recorded by the transport; every case is non-trivial",
    clauses={10: "a target was delivered twice", 11: "a target was lost (or an unknown one delivered)", 12: "a delivered target mixes fields of different targets",
             13: "a call failed with an error other than exhaustion", 14: "a call that started after exhaustion was reported still delivered a target or error",
             15: "a caller of the targeter never returned (blocked for 20 s)", 20: "static targeter returned an unknown target", 21: "static rotation uneven: a target used fewer than floor(n/k) or more than ceil(n/k) times", 23: "static targeter: consecutive draws of a single caller do not advance by one target", 22: "data race reported"},
    assumptions=["data-race freedom of the binary is observed with the race detector (a -race build of the harness re-runs the first cases of every run) on the schedules that happen, not proved; the all-schedules argument is the lockset theorem over the regenerated skeletons",
                 "sharing through the heap below the closure's own variables (e.g. header maps of returned targets) is outside the skeleton"],
    trusted_base=_T2_TB,
    level_text="lockset_sound and sections_exclusive are proved in Coq for every skeleton, any number of callers and every interleaving; json/http/static_targeter_safe are re-proved by reflection on skeletons regenerated from the current source on every run; static_rotation_index is proved. Tie: translator (T2) + concurrent histories judged by a checker defined in Coq.",
    technique="Coq soundness proof of a lockset checker + reflection on skeletons regenerated from source; concurrent stress histories",
    timeout={"quick": 600, "thorough": 3000})
PROPS["C15"]["race"] = {"quick": 60, "thorough": 600, "clause": 22}
PROPS["C02"]["gen"] = gen_skel
PROPS["C02"]["obligation_files"] = ["Props/C02.v", "Gen/Skel.v"]
PROPS["C02"]["trusted_base"] = _ATTACK_TB + _T2_TB

reg("C18", needs_cli=True, race={"quick": 60, "thorough": 600, "clause": 22}, gen=gen_skel, obligation_files=["Props/C18.v", "Gen/Skel.v"],
    rule="T2: the skeletons of the DNSCaching and ConnectTo dial closures and of resolver.address are regenerated and lockset_ok must hold "
         "of each by reflection. T1: an in-process DNS server (miekg/dns, loopback UDP) serves 1..8 A/AAAA records (IPv4 only, IPv6 only, "
         "mixed) per case; the dial function installed by DNSCaching (alone, before and after ConnectTo) over a recording dial is called "
         "1..20 or 100*addresses..+300 times (10^4 in thorough) from 1..64 goroutines; ConnectTo over 1..6 replacements is dialled 0..200 "
         "times sequentially or from up to 64 goroutines, plus an unmapped address; every case is non-trivial",
    clauses={1: "a dial attempted an address that is not resolved for the host, or not exactly one per IP family present", 2: "an address of the resolved set was never dialled in the second half of a long history (the cached set shrank)",
             3: "a dial failed before reaching the recording dial function", 10: "ConnectTo dialled an address that is not a replacement", 11: "ConnectTo rotation uneven (a replacement used fewer than floor(n/k) or more than ceil(n/k) times)",
             12: "an unmapped address did not pass through unchanged",
             5: "with a positive DNS TTL the dials did not follow a change of the host's address within several TTLs (the cache is not refreshed every TTL)",
             4: "with a DNS TTL of 0 (cache forever) the host was looked up again for later connections", 40: "the DNS dials of a custom resolver list do not rotate evenly over its addresses",
             22: "data race reported in the dial path",
             30: "the attack command's requests for a -connect-to address did not all succeed at its replacements", 31: "the attack command never used one of the -connect-to replacements"},
    diffs={20: "sequential ConnectTo dial order differs from the model's rotation"},
    assumptions=["rs/dnscache lookup and refresh are library code; the shuffle is an oracle permutation in the model and a PRNG in the code (coverage clause 2 is probabilistic: miss probability < 1e-11 per address)",
                 "data-race freedom of the binary is observed with the race detector (a -race build of the harness re-runs the first cases of every run) on the schedules that happen, not proved; the all-schedules argument is the lockset theorem over the regenerated skeletons"],
    trusted_base=_T2_TB + ["in-process DNS server (miekg/dns) and net.DefaultResolver override in the harness"],
    level_text="dial_targets_resolved, cache_preserved, every_address_possible, connect_to_rotation (any window of consecutive dials spreads floor/ceil over the replacements) and dial_lockset_sound are proved in Coq; dns_caching_dial_lockset / connect_to_dial_lockset / resolver_rotation_atomic are re-proved by reflection on skeletons regenerated from the current source on every run. Tie: translator (T2) + dial histories through a real DNS lookup path judged by a checker defined in Coq.",
    technique="Coq proofs over a functional dial model and a lockset checker + reflection on regenerated skeletons; recorded dial histories",
    timeout={"quick": 600, "thorough": 3000})

reg("C17", needs_cli=True,
    rule="LTTB: every (count, threshold) with count <= 40 and threshold <= 42 (quick) / 66, 68 (thorough) through the exported "
         "lttb.Downsample with a recording iterator, plus random counts 100..5000 with thresholds {0,1,2,3,4,count-1,count,count+1,random}; "
         "plot: 1..3 attacks of 1..60 (every 8th 300..1000) results with sequence numbers 0..n-1, timestamp gaps from 0 to two minutes, "
         "OK/ERROR mix, presented in a random permutation or a nearly-sorted completion order, through plot.New/Add/Close/WriteTo with "
         "threshold 0 and with a threshold in {0,1,2,3,5,10,50,4000}; the data block and labels of the written HTML are parsed back; one "
         "case in 12 has a timestamp going back (outside the property, compared with the model only); non-trivial = plot cases and LTTB cases with 3 <= threshold < count",
    exhaustive="the LTTB grid only: all (count, threshold) with count <= 40, threshold <= 42 (quick) / count <= 66, threshold <= 68 (thorough)",
    clauses={1: "adding results in this order failed", 2: "the plotted points are not exactly one per result at x = ms since the attack's first request, y = latency, in the right OK/ERROR series",
             3: "rows of a series are not sorted by x", 4: "downsampled series is not an identity / threshold-sized subsequence containing the first and last points", 5: "downsampling failed although no series is longer than a threshold of 1 or 2", 6: "the rows of the plotted data are not sorted by x", 7: "the plot command run on a file of the same results plots other data than the library",
             10: "series at or below the threshold (or threshold 0) changed", 11: "threshold 1 or 2 with a longer series not rejected", 12: "downsampling failed or panicked", 13: "not exactly threshold points",
             14: "not a subsequence of the input", 15: "first or last point missing"},
    diffs={30: "model and implementation disagree on whether adding fails", 31: "series differ from the model's", 40: "LTTB output or requested chunk sizes differ from the model with exact rational bucket bounds", 41: "LTTB chunk sizes / picked buckets differ both from the exact rational bounds and from the bounds as computed in binary64 (Base/F64.v)"},
    assumptions=["go-tsz compression is assumed lossless (sampled)", "bucket bounds are modelled with exact rationals (the theorems); the code computes them in float64: where the two differ (about one (count, threshold) pair in a thousand) the real code is judged against the same bounds computed by a reference model of the three binary64 operations involved (Base/F64.v: round-to-nearest-even division, multiplication by an integer, truncation; f64_rounding_nearest proves that its rounding returns a 53-bit mantissa within half a unit in the last place; that this is what the Go compiler's float64 arithmetic does is compared on every run)",
                 "x is compared in whole milliseconds and y in whole nanoseconds after rounding the plotted floats"],
    level_text="plot_one_point_each is proved in Coq for every result set in the property's domain and EVERY permutation of arrival (invariant of the re-ordering buffer, unbounded); rows_sorted, lttb_identity, lttb_rejects_1_2, lttb_structure (any selection oracle) and lttb_buckets_exact are proved for all counts and thresholds with exact rational bucket bounds. Tie: differential runs through the exported plot API (HTML data block parsed back) and lttb.Downsample with a recording iterator.",
    technique="Coq invariant proof of the re-ordering buffer over all permutations; structural LTTB proof; differential correspondence",
    timeout={"quick": 600, "thorough": 3000})

_CODEC_GEN = ("results with texts from a 32-entry alphabet rich in quotes, commas, LF, lone CR, leading/trailing blanks, tabs, NBSP/NEL/U+3000 "
              "first runes, U+2028/9, <>&, backslashes, emoji and the literal \\\\.; full 64-bit ranges of seq / bytes, codes 0..65535, latencies "
              "incl. 0, negative and MaxInt64-sized; timestamps 1970..2200 with nanoseconds in five zones; nil / empty / text / random bodies; nil / "
              "empty / 1..3-key multi-valued canonical headers")
reg("C07", fast=True,
    rule="streams of 1..6 (every 10th 20..40) " + _CODEC_GEN + "; each stream is encoded and decoded by the real gob, CSV and JSON codecs, the CSV and JSON "
         "bytes are read by the model's independently written readers, and the Result type's fields are enumerated by reflection; every 25th case carries a "
         "CR LF inside a text (tag csv.crlf); all cases non-trivial",
    clauses={1: "CSV: decoding the encoded stream does not return an equal sequence then end-of-stream", 2: "JSON: decoding the encoded stream does not return an equal sequence then end-of-stream",
             3: "gob: decoding the encoded stream does not return an equal sequence then end-of-stream", 4: "CSV: an independent reader of the documented 12-column layout disagrees with the written stream",
             5: "JSON: an independent reader of the documented field names/units disagrees with the written stream", 6: "the Result type has a field the documented layouts do not cover",
             7: "CSV: a text containing CR LF does not round-trip",
             8: "CSV: a stream with CR LF inside a text decodes to something other than the same records with CR LF read as LF"},
    diffs={20: "model encoders differ byte-wise from the implementation's and a property clause fails"},
    assumptions=["gob payload encoding is library code: its round trip is sampled on every run, not proved; its framing is modelled",
                 "encoding/csv, net/textproto (MIME header block), time formatting and the easyjson lexer are library code: reference models (Model/Csv.v, Model/ResultCodec.v, Model/Json.v)",
                 "byte-wise differences between model and implementation encoders with all property clauses holding are declared don't-care (quoting style is free)"],
    level_text="csv_record_roundtrip and csv_stream_roundtrip (every stream of results in the representable domain whose texts hold no CR LF decodes through the CSV codec to an equal sequence then end-of-stream; the MIME header block round trip mime_roundtrip is proved too for canonical distinct keys and clean values: csv_stream_roundtrip_in_domain), built from csv_fields_roundtrip (Go's CSV reader recovers every field sequence without CR LF, all contents, unbounded), rfc_csv_roundtrip (all fields), b64_roundtrip, dec_roundtrip; csv_crlf_refuted; csv_columns_documented - json_stream_roundtrip (every stream of results in the domain through the JSON encoder and the independently written reader: string escaping json_string_roundtrip, RFC 3339 timestamps rfc3339_roundtrip over 1970..2199 with nanoseconds and whole-minute zones, numbers, base64 bodies, the headers object, the 12-member object parse) - all proved in Coq; the gob round trip is established by the tie only (its payload encoding is library code); the CSV and JSON layouts of the model are written from the documentation and act as the independent readers; tie by differential runs of the three real codecs.",
    technique="Coq round-trip proofs of the codec components; independent-reader differential correspondence",
    timeout={"quick": 900, "thorough": 3000})
reg("C11", fast=True,
    rule="latency data sets of 1..12, ~800 (the digest's first re-merge), 1..3000, 5000..20000 and 30000 (thorough: 100000) samples drawn from uniform, log-normal, constant, few-valued, "
         "bimodal with a 10^12 gap, ramp and heavy-tailed distributions, arriving in random, sorted or reverse-sorted order, added to a real Metrics and closed; the processed state of the real digest "
         "(centroid means and weights, min, max) is read by reflection and the HDR report rendered by the real reporter; all cases non-trivial",
    clauses={1: "min <= p50 <= p90 <= p95 <= p99 <= max does not hold", 2: "a reported percentile does not lie between two observed latencies whose ranks are within 1 + 1% of n of q*n",
             3: "all latencies are equal but a percentile differs from that value", 4: "the HDR report lists a value that decreases as the percentile grows",
             5: "the HDR report's percentile column is empty or decreases",
             6: "a reported percentile is off by more than 2 + 2.5% of n ranks (beyond the resolution a compression-100 digest has by construction)"},
    diffs={10: "P50/P90/P95/P99 differ from the exact-Q model query on the exported digest state (beyond truncation and the 2^-40 band)",
           11: "an HDR row differs from the model query on the exported digest state", 12: "the digest's min/max lie outside the tracked Min/Max"},
    assumptions=["float rounding inside the digest is not modelled: a state whose exported means violate the invariant by rounding is declared don't-care for the model comparison (the property clauses are still decided on the reported values)",
                 "the implementation value must lie between the model query at q(1-2^-40) and q(1+2^-40) (the query is monotone: quantile_mono), +-1 ns for the truncation"],
    level_text="quantile_mono, quantile_in_range, quantile_constant, quantile_total, percentiles_ordered, hdr_monotone (every non-decreasing ladder) are proved in Coq over exact rationals for EVERY digest state "
               "satisfying the invariant, and process_inv proves the invariant is maintained by process() under every merge policy (the sin/asin scale function never enters). PARTIAL: the 1 + 1%*n rank bound for the real merge policy is not proved; "
               "it is evaluated by the verified checker with exact integer rank arithmetic on every explored data set. Tie: the exported state of the real digest is queried by the model and compared with Metrics.Latencies and the HDR rows.",
    technique="Coq proof (monotone, in-range query over Q; invariant under any merge policy); verified rank checker; differential correspondence on the exported digest state",
    timeout={"quick": 900, "thorough": 3000})
reg("C16", needs_cli=True,
    rule="one input per case for one of twelve parsers or, one case in eight of a thirteenth class, for the report / encode / plot commands reading the bytes from a file (they must end by themselves within 6 s, write at most 64 MiB and not panic) (gob / CSV / JSON decoders, DecoderFor, HTTP and JSON target parsers, Buckets.UnmarshalText, the rate, header, max-body, connect-to and resolver-address flag parsers of the real vegeta process): "
         "10% random bytes, 10% valid documents, 10% valid documents of another format, 70% structured mutations of valid documents (bit flips, deletions, duplications, truncations, splices with another document, insertion / substitution from a dictionary "
         "of separators, blanks, quotes, huge numbers and length prefixes, blank-for-tab style replacements); decoders and targeters are called until they report an error (at most |input|+3 times) and twice more afterwards; @file lines are redirected "
         "into a sandbox directory; every call runs under a 6 s limit (calls are serialised, so the limit is not a load artefact; a parser that hung three times is not called again) with panics recovered and TotalAlloc measured (calls serialised); all cases non-trivial",
    clauses={1: "a parser call panicked", 2: "a parser call did not return within the time limit (hang)", 3: "a parser allocated more than its fixed allowance (4 MiB; 64 MiB where encoding/gob is tried) + 1 KiB per input byte",
             4: "a parser yielded more values than its input can hold (it loops without consuming input)"},
    assumptions=["flag values travel to the vegeta process as JSON strings: inputs for the five flag parsers are valid UTF-8",
                 "gob, encoding/csv, easyjson's lexer, time.ParseDuration, datasize and net.SplitHostPort are library code: their totality is sampled here, not proved",
                 "PARTIAL: panics and hangs are runtime behaviour of the Go code that no Gallina model exhibits; the theorems bound the work of the model's loops, the fuzz tie looks for the runtime failures"],
    level_text="PARTIAL. Proved in Coq for ALL byte strings and any number of calls: http_targeter_progress / http_targeter_total (a target consumes a scanned line; at most one target per line), json_targeter_total, decoder_for_total (each trial decoder at most once), "
               "frames_total and lines_total (every record costs a byte). The verified checker applies these bounds to the real parsers' value counts. Crash / hang / allocation freedom of the Go code itself is explored by the structured fuzz tie, not proved.",
    technique="Coq progress theorems (values bounded by the input's measure) + verified bound checker; structured fuzzing of the real parsers for panics, hangs and allocation",
    timeout={"quick": 1500, "thorough": 6000})
reg("C08", needs_cli=True,
    rule="streams of 1..10 " + _CODEC_GEN + " (bodies of 4096/5000/70000 bytes in one record of six, a first record without headers/body/error in one stream of three) in each encoding, "
         "read through a reader that returns 1, 2, 7, 512, 4095, 4096, 4097 or 65536 bytes per call (fixed or varying) and handed to DecoderFor; every 9th case is input in none "
         "of the formats (empty, text, binary, a CSV row with too few fields, truncated JSON); every 5th case re-encodes a file through a chain of 1..4 formats with the real `vegeta encode`; all cases non-trivial",
    clauses={1: "no decoder was selected for a stream in one of the three encodings", 2: "the selected decoder does not yield exactly the encoded sequence (something lost, duplicated or altered while sniffing)",
             3: "a decoder was returned for input that is in none of the formats", 4: "a transcoding chain does not decode to the original sequence", 5: "a command given bytes in none of the encodings on its standard input (a pipe) did not refuse them"},
    assumptions=["'input in format F' means F's decoder decodes a first record (DESIGN 7.1); near-valid foreign input being accepted is not a violation"],
    level_text="decoder_for_replays (the reader handed to the chosen decoder yields exactly the original stream, for every chunking and every read-ahead of the trial decoders), decoder_for_first_success and transcode_chain are proved in Coq over a stream algebra with adversarial chunking; tie by real DecoderFor runs over chunked readers and real `vegeta encode` chains.",
    technique="Coq proof over a stream algebra (tee/multi-reader replay); differential correspondence incl. the CLI",
    timeout={"quick": 900, "thorough": 3000})
reg("C09", needs_cli=True,
    rule="streams of 1..12 " + _CODEC_GEN + " (bodies up to 2000 / 20000 bytes; cases 5, 6 and 7 of every 30: a record larger than 64 KiB in the middle - JSON, gob, CSV; cases 8 and 20 of every 30: one result the JSON encoder refuses - a year beyond 9999 - in the middle, the records written being those whose Encode returned nil) written by the real encoders through a writer that records the offset after every Encode call; gob and JSON "
         "streams are cut at every byte offset (long streams in quick: a stride plus every record boundary +-2) and CSV streams at every record boundary, each prefix decoded by the real decoder; a sample of the gob / JSON prefixes (6 random offsets and every record boundary, -1, +1..8) is also decoded through format detection (DecoderFor) and, every 8th case, 3 prefixes through the `vegeta encode -to json` command; every 40th case runs the real `vegeta attack` against a local server, kills it (SIGKILL) about a second in and decodes its output file; all cases non-trivial",
    exhaustive="cut points of each generated gob / JSON stream up to 6000 bytes (all streams in thorough); record boundaries of CSV streams",
    clauses={1: "a cut stream decoded to something other than exactly the records completely written before the cut", 2: "an Encode call left a partial record in the stream",
             3: "results whose responses completed before the attack command was killed are missing from its output (results are held back instead of written as they arrive)"},
    diffs={10: "gob frame boundaries of the model do not cover the record boundaries", 11: "JSON line count differs from the record count"},
    assumptions=["gob payload is opaque; only its length-prefixed framing is modelled"],
    level_text="json_cut_decodes_written (end to end on the JSON codec model: a stream of results cut at any byte offset decodes to exactly the results written completely before the cut) and csv_cut_at_boundary (a CSV stream cut at a record boundary decodes to the records written so far); frames_cut_prefix (length-prefixed frames: every cut yields exactly the complete frames before it) and lines_cut_prefix (newline framing) are proved in Coq for every stream and every cut offset; json_no_raw_newline (proved: the JSON encoder's text of a result in the domain contains no raw line break) shows it emits exactly one line per record; tie: every cut offset of every generated stream decoded by the real decoders.",
    technique="Coq prefix lemmas for the two framings over all cut offsets, composed with the JSON / CSV codec round trips into end-to-end cut theorems; exhaustive cut enumeration on the implementation",
    timeout={"quick": 900, "thorough": 3000})
